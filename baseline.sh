#!/bin/bash
# runs the repository's own suite with all monitors off; expected: 91 passed, 1 failed (test_group_transform, the baseline's always-failing test)
cd /repo && /venv/bin/python -m pytest -q -p no:cacheprovider --timeout=900 --continue-on-collection-errors "$@" 2>&1 | tail -5
git -C /repo status --short | grep -v offset_curves.svg
