"""Reference SVG flattener (stdlib + numpy; no svgpathtools import).

* parse_transform_list(s): tokenizer + semantics written from the SVG transform grammar
  (matrix | translate 1-2 | scale 1-2 | rotate 1 or 3 | skewX | skewY; comma / whitespace
  separators, a sign may directly follow a number).
* element_geometry(tag, attrib): the geometry the SVG spec gives the element, as a list of
  closed/open "pieces": ('poly', [points...], closed) for straight-edged shapes with their
  defining points, ('curve', ndarray of dense samples) for curved ones.
* flatten(root): walks a tree of svg:g groups, composes ancestors' transforms (outermost
  first) and the element's own, returns [(element, 3x3 matrix, pieces mapped by the matrix)].
"""
import math
import re

import numpy as np

from . import svgpath as RP

SVG = '{http://www.w3.org/2000/svg}'
_NUM = r'[-+]?(?:[0-9]+\.?[0-9]*|\.[0-9]+)(?:[eE][-+]?[0-9]+)?'
_TF = re.compile(r'\s*,?\s*(matrix|translate|scale|rotate|skewX|skewY)\s*\(([^)]*)\)', re.S)
NSAMP = 2048


class Unsupported(Exception):
    pass


def numbers(s):
    out = re.findall(_NUM, s)
    rest = re.sub(_NUM, '', s)
    if rest.strip(' \t\r\n\x0c,'):
        raise Unsupported('not a number list: %r' % s)
    return [float(x) for x in out]


def parse_transform_list(s):
    M = np.identity(3)
    if s is None or not s.strip():
        return M
    pos = 0
    for m in _TF.finditer(s):
        if s[pos:m.start()].strip(' \t\r\n,'):
            raise Unsupported('junk in transform list: %r' % s)
        pos = m.end()
        name, args = m.group(1), numbers(m.group(2))
        T = np.identity(3)
        if name == 'matrix':
            if len(args) != 6:
                raise Unsupported('matrix needs 6 numbers')
            a, b, c, d, e, f = args
            T = np.array([[a, c, e], [b, d, f], [0, 0, 1.0]])
        elif name == 'translate':
            if len(args) not in (1, 2):
                raise Unsupported('translate needs 1-2 numbers')
            T[0, 2] = args[0]
            T[1, 2] = args[1] if len(args) == 2 else 0.0
        elif name == 'scale':
            if len(args) not in (1, 2):
                raise Unsupported('scale needs 1-2 numbers')
            T[0, 0] = args[0]
            T[1, 1] = args[1] if len(args) == 2 else args[0]
        elif name == 'rotate':
            if len(args) not in (1, 3):
                raise Unsupported('rotate needs 1 or 3 numbers')
            a = math.radians(args[0])
            R = np.array([[math.cos(a), -math.sin(a), 0], [math.sin(a), math.cos(a), 0], [0, 0, 1.0]])
            if len(args) == 3:
                cx, cy = args[1], args[2]
                T1, T2 = np.identity(3), np.identity(3)
                T1[0, 2], T1[1, 2] = cx, cy
                T2[0, 2], T2[1, 2] = -cx, -cy
                T = T1.dot(R).dot(T2)
            else:
                T = R
        elif name == 'skewX':
            if len(args) != 1:
                raise Unsupported('skewX needs 1 number')
            T[0, 1] = math.tan(math.radians(args[0]))
        elif name == 'skewY':
            if len(args) != 1:
                raise Unsupported('skewY needs 1 number')
            T[1, 0] = math.tan(math.radians(args[0]))
        M = M.dot(T)
    if s[pos:].strip(' \t\r\n,'):
        raise Unsupported('junk at the end of the transform list: %r' % s)
    return M


def _f(attrib, key, default=0.0):
    v = attrib.get(key)
    if v is None or v == '':
        return default
    v = v.strip()
    m = re.fullmatch(_NUM, v)
    if not m:
        raise Unsupported('length with unit or junk: %r' % v)
    return float(v)


def _ellipse_samples(cx, cy, rx, ry):
    t = np.linspace(0, 2 * math.pi, 4 * NSAMP + 1)
    return cx + rx * np.cos(t) + 1j * (cy + ry * np.sin(t))


def _arc_samples(p0, rx, ry, rot, large, sweep, p1):
    from . import arc as RA
    r = RA.endpoint_to_center(p0, rx, ry, rot, large, sweep, p1)
    t = np.linspace(0, 1, NSAMP + 1)
    a = np.radians(r.theta1 + t * r.dtheta)
    c, s = math.cos(r.phi), math.sin(r.phi)
    x, y = r.rx * np.cos(a), r.ry * np.sin(a)
    return (r.cx + c * x - s * y) + 1j * (r.cy + s * x + c * y)


def _bez_samples(pts):
    t = np.linspace(0, 1, NSAMP // 4 + 1)
    cur = [np.full(t.shape, complex(p)) for p in pts]
    while len(cur) > 1:
        cur = [(1 - t) * cur[i] + t * cur[i + 1] for i in range(len(cur) - 1)]
    return cur[0]


def path_pieces(d):
    """pieces of a path element: ('bez', [control points]) for L/Q/C commands (affine maps act on the
    control points), ('curve', samples) for arcs"""
    prog = RP.tokenize(d)
    segs, meta, trace = RP.interpret(prog)
    pieces = []
    for s in segs:
        if s[0] in 'LQC':
            pieces.append(('bez', list(s[1:])))
        else:
            pieces.append(('curve', _arc_samples(s[1], s[2], s[3], s[4], s[5], s[6], s[7])))
    return pieces, segs


def _points_attr(s):
    nums = numbers(s or '')
    if len(nums) % 2:
        nums = nums[:-1]
    return [complex(nums[i], nums[i + 1]) for i in range(0, len(nums), 2)]


def element_geometry(tag, attrib):
    """geometry per the SVG spec (shapes.html): list of pieces"""
    if tag == 'path':
        return path_pieces(attrib.get('d', ''))[0]
    if tag == 'line':
        return [('poly', [complex(_f(attrib, 'x1'), _f(attrib, 'y1')), complex(_f(attrib, 'x2'), _f(attrib, 'y2'))], False)]
    if tag == 'polyline':
        return [('poly', _points_attr(attrib.get('points')), False)]
    if tag == 'polygon':
        return [('poly', _points_attr(attrib.get('points')), True)]
    if tag == 'circle':
        r = _f(attrib, 'r')
        if r <= 0:
            raise Unsupported('circle without positive radius')
        return [('curve', _ellipse_samples(_f(attrib, 'cx'), _f(attrib, 'cy'), r, r))]
    if tag == 'ellipse':
        rx, ry = _f(attrib, 'rx', None), _f(attrib, 'ry', None)
        if rx is None or ry is None or rx <= 0 or ry <= 0:
            raise Unsupported('ellipse without two positive radii')
        return [('curve', _ellipse_samples(_f(attrib, 'cx'), _f(attrib, 'cy'), rx, ry))]
    if tag == 'rect':
        x, y, w, h = _f(attrib, 'x'), _f(attrib, 'y'), _f(attrib, 'width'), _f(attrib, 'height')
        if w <= 0 or h <= 0:
            raise Unsupported('rect without positive size')
        rx, ry = _f(attrib, 'rx', None), _f(attrib, 'ry', None)
        if rx is None and ry is None:
            rx = ry = 0.0
        elif rx is None:
            rx = ry
        elif ry is None:
            ry = rx
        if rx < 0 or ry < 0:
            raise Unsupported('negative corner radius')
        rx, ry = min(rx, w / 2), min(ry, h / 2)          # spec: clamp to half the width / height
        if rx == 0 or ry == 0:
            return [('poly', [complex(x, y), complex(x + w, y), complex(x + w, y + h), complex(x, y + h)], True)]
        # the spec's equivalent path, sampled
        q = np.linspace(0, math.pi / 2, NSAMP // 4 + 1)
        corners = [(x + w - rx, y + ry, -math.pi / 2), (x + w - rx, y + h - ry, 0), (x + rx, y + h - ry, math.pi / 2),
                   (x + rx, y + ry, math.pi)]
        pts = []
        for cx, cy, a0 in corners:
            pts.append(cx + rx * np.cos(a0 + q) + 1j * (cy + ry * np.sin(a0 + q)))
        pts.append(pts[0][:1])
        return [('curve', np.concatenate(pts))]
    raise Unsupported('element ' + tag)


def map_pieces(pieces, M):
    out = []
    for p in pieces:
        if p[0] in ('poly', 'bez'):
            pts = [complex(M[0, 0] * z.real + M[0, 1] * z.imag + M[0, 2], M[1, 0] * z.real + M[1, 1] * z.imag + M[1, 2])
                   for z in p[1]]
            out.append((p[0], pts) + tuple(p[2:]))
        else:
            z = p[1]
            out.append(('curve', (M[0, 0] * z.real + M[0, 1] * z.imag + M[0, 2]) +
                        1j * (M[1, 0] * z.real + M[1, 1] * z.imag + M[1, 2])))
    return out


def pieces_polyline(pieces):
    """one dense polyline per piece (closing edge added for closed polygons)"""
    out = []
    for p in pieces:
        if p[0] == 'poly':
            pts = list(p[1]) + ([p[1][0]] if p[2] and p[1] else [])
            out.append(np.array(pts, dtype=complex))
        elif p[0] == 'bez':
            out.append(_bez_samples(p[1]) if len(p[1]) > 2 else np.array(p[1], dtype=complex))
        else:
            out.append(np.asarray(p[1], dtype=complex))
    return out


SHAPES = ('path', 'line', 'polyline', 'polygon', 'rect', 'circle', 'ellipse')


def flatten(root, own_transform=True):
    """[(element, matrix, mapped pieces | Unsupported instance)] in document order, descending svg:g only"""
    out = []

    def walk(group, M):
        for child in list(group):
            tag = child.tag
            if not isinstance(tag, str) or not tag.startswith(SVG):
                continue
            local = tag[len(SVG):]
            try:
                T = M.dot(parse_transform_list(child.get('transform')))
            except Unsupported as e:
                T = e
            if local == 'g':
                if isinstance(T, Unsupported):
                    continue
                walk(child, T)
            elif local in SHAPES:
                if isinstance(T, Unsupported):
                    out.append((child, None, T))
                    continue
                try:
                    out.append((child, T, map_pieces(element_geometry(local, child.attrib), T)))
                except (Unsupported, RP.Ungrammatical) as e:
                    out.append((child, T, Unsupported(str(e))))
    try:
        M0 = parse_transform_list(root.get('transform')) if own_transform else np.identity(3)
    except Unsupported:
        return out
    walk(root, M0)
    return out


# --------------------------------------------------------------------------
# distances between polylines (point-to-segment), vectorised

def _dist_points_to_polyline(pts, poly):
    """for each point the distance to the polyline (array of vertices); chunked, real arithmetic"""
    if len(poly) == 1:
        return np.abs(pts - poly[0])
    ax, ay = poly[:-1].real, poly[:-1].imag
    dx, dy = poly[1:].real - ax, poly[1:].imag - ay
    den = dx * dx + dy * dy
    inv = np.where(den > 0, 1.0 / np.where(den > 0, den, 1.0), 0.0)
    out = np.empty(len(pts))
    for k in range(0, len(pts), 64):
        px = pts[k:k + 64].real[:, None]
        py = pts[k:k + 64].imag[:, None]
        t = ((px - ax) * dx + (py - ay) * dy) * inv
        np.clip(t, 0, 1, out=t)
        ex = px - (ax + t * dx)
        ey = py - (ay + t * dy)
        out[k:k + 64] = np.sqrt((ex * ex + ey * ey).min(axis=1))
    return out


def directed(A, B, step=1):
    """max over sample points of the polylines A of the distance to the union of polylines B"""
    if not A:
        return 0.0
    if not B:
        return float('inf')
    worst = 0.0
    for a in A:
        pts = a[::max(1, len(a) // 160)] if len(a) > 320 else a
        if len(a) > 320 and pts[-1] != a[-1]:
            pts = np.append(pts, a[-1])
        best = None
        for b in B:
            bb = b
            if len(bb) > 4096:
                bb = bb[::max(1, len(bb) // 4096)]
                if bb[-1] != b[-1]:
                    bb = np.append(bb, b[-1])
            d = _dist_points_to_polyline(pts, bb)
            best = d if best is None else np.minimum(best, d)
        worst = max(worst, float(best.max()))
    return worst
