"""W3C SVG implementation notes F.6.5 / F.6.6 (endpoint -> centre parameterisation),
written from the text with ``math`` only.  No svgpathtools import."""
import math


class RefArc(object):
    __slots__ = ('cx', 'cy', 'rx', 'ry', 'phi', 'theta1', 'dtheta', 'lam', 'scaled', 'x1', 'y1', 'x2', 'y2')

    def point(self, t):
        a = math.radians(self.theta1 + t * self.dtheta)
        c, s = math.cos(self.phi), math.sin(self.phi)
        x = self.rx * math.cos(a)
        y = self.ry * math.sin(a)
        return complex(self.cx + c * x - s * y, self.cy + s * x + c * y)

    def deriv(self, t, n):
        """n-th derivative with respect to t"""
        k = math.radians(self.dtheta)
        a = math.radians(self.theta1 + t * self.dtheta) + n * math.pi / 2
        c, s = math.cos(self.phi), math.sin(self.phi)
        x = self.rx * math.cos(a)
        y = self.ry * math.sin(a)
        return (k ** n) * complex(c * x - s * y, s * x + c * y)

    @property
    def size(self):
        chord = math.hypot(self.x1 - self.x2, self.y1 - self.y2)
        if abs(self.dtheta) <= 90:
            return 2 * chord          # a short arc is about as large as its chord, whatever the radius
        return max(self.rx, self.ry, chord)


def _angle(ux, uy, vx, vy):
    """signed angle in degrees from u to v (F.6.5.4)"""
    # atan2(cross, dot): the same angle as the acos formula of the note, at full precision
    return math.degrees(math.atan2(ux * vy - uy * vx, ux * vx + uy * vy))


def lam_of(start, end, rx, ry, rot_deg):
    phi = math.radians(rot_deg)
    c, s = math.cos(phi), math.sin(phi)
    dx, dy = (start.real - end.real) / 2, (start.imag - end.imag) / 2
    x1p = c * dx + s * dy
    y1p = -s * dx + c * dy
    return (x1p / abs(rx)) ** 2 + (y1p / abs(ry)) ** 2


def endpoint_to_center(start, rx, ry, rot_deg, fa, fs, end):
    r = RefArc()
    x1, y1, x2, y2 = start.real, start.imag, end.real, end.imag
    rx, ry = abs(rx), abs(ry)                      # F.6.6 step 2
    phi = math.radians(rot_deg)
    c, s = math.cos(phi), math.sin(phi)
    dx, dy = (x1 - x2) / 2, (y1 - y2) / 2          # F.6.5.1
    x1p = c * dx + s * dy
    y1p = -s * dx + c * dy
    lam = (x1p / rx) ** 2 + (y1p / ry) ** 2        # F.6.6 step 3
    scaled = lam > 1
    if scaled:
        q = math.sqrt(lam)
        rx, ry = q * rx, q * ry
        coef = 0.0                                 # the ellipse fits exactly: centre = chord midpoint
    else:
        num = 1.0 - lam                            # = (rx^2 ry^2 - rx^2 y1'^2 - ry^2 x1'^2)/(rx^2 ry^2)
        den = lam
        coef = math.sqrt(max(0.0, num / den)) if den > 0 else 0.0
    if bool(fa) == bool(fs):
        coef = -coef                               # F.6.5.2
    cxp = coef * rx * y1p / ry
    cyp = -coef * ry * x1p / rx
    r.cx = c * cxp - s * cyp + (x1 + x2) / 2       # F.6.5.3
    r.cy = s * cxp + c * cyp + (y1 + y2) / 2
    ux, uy = (x1p - cxp) / rx, (y1p - cyp) / ry
    vx, vy = (-x1p - cxp) / rx, (-y1p - cyp) / ry
    r.theta1 = _angle(1.0, 0.0, ux, uy)            # F.6.5.5
    d = _angle(ux, uy, vx, vy) % 360.0             # F.6.5.6
    if scaled or lam == 1.0:
        d = 180.0
    if not fs and d > 0:
        d -= 360.0
    elif fs and d < 0:
        d += 360.0
    r.dtheta = d
    r.rx, r.ry, r.phi, r.lam, r.scaled = rx, ry, phi, lam, scaled
    r.x1, r.y1, r.x2, r.y2 = x1, y1, x2, y2
    return r
