"""Exact-rational reference arithmetic (stdlib only, no svgpathtools, no numpy).

Floats are converted with Fraction(x) (exact for a double), so "true value"
means the exact value for the actual double inputs.
Complex numbers are pairs (re, im) of Fractions.
"""
from fractions import Fraction as F
from math import comb


def fr(x):
    return F(float(x)) if not isinstance(x, (int, F)) else F(x)


def cfr(z):
    z = complex(z)
    return (F(z.real), F(z.imag))


def cfl(p):
    return complex(float(p[0]), float(p[1]))


# --------------------------------------------------------------------------
# Bernstein / Bezier

def bernstein(n, t):
    t = fr(t)
    s = 1 - t
    return [comb(n, k) * s ** (n - k) * t ** k for k in range(n + 1)]


def bez_real(ps, t):
    """exact value of the Bezier curve with real control values ps (Fractions) at t"""
    n = len(ps) - 1
    return sum(w * p for w, p in zip(bernstein(n, t), ps))


def bez(cps, t):
    """cps: list of complex (floats) -> exact (re, im)"""
    re = [F(complex(z).real) for z in cps]
    im = [F(complex(z).imag) for z in cps]
    return (bez_real(re, t), bez_real(im, t))


def diff_ctrl(ps):
    """control values of the derivative curve"""
    n = len(ps) - 1
    return [n * (ps[i + 1] - ps[i]) for i in range(n)]


def bez_deriv(cps, t, k):
    re = [F(complex(z).real) for z in cps]
    im = [F(complex(z).imag) for z in cps]
    for _ in range(k):
        if len(re) == 1:
            return (F(0), F(0))
        re, im = diff_ctrl(re), diff_ctrl(im)
    return (bez_real(re, t), bez_real(im, t))


def power_coeffs_real(ps):
    """power-basis coefficients (highest degree first) of the Bezier polynomial"""
    n = len(ps) - 1
    out = []
    for j in range(n + 1):
        c = comb(n, j) * sum((-1) ** (i + j) * comb(j, i) * ps[i] for i in range(j + 1))
        out.append(c)
    return out[::-1]


def power_coeffs(cps):
    re = power_coeffs_real([F(complex(z).real) for z in cps])
    im = power_coeffs_real([F(complex(z).imag) for z in cps])
    return list(zip(re, im))


def split_real(ps, t):
    t = fr(t)
    left, right = [], []
    cur = list(ps)
    while cur:
        left.append(cur[0])
        right.append(cur[-1])
        cur = [(1 - t) * cur[i] + t * cur[i + 1] for i in range(len(cur) - 1)]
    return left, right[::-1]


def split(cps, t):
    lre, rre = split_real([F(complex(z).real) for z in cps], t)
    lim, rim = split_real([F(complex(z).imag) for z in cps], t)
    return list(zip(lre, lim)), list(zip(rre, rim))


# --------------------------------------------------------------------------
# polynomials with Fraction coefficients, highest degree first

def ptrim(p):
    p = list(p)
    while len(p) > 1 and p[0] == 0:
        p.pop(0)
    return p


def peval(p, x):
    r = F(0)
    for c in p:
        r = r * x + c
    return r


def pderiv(p):
    n = len(p) - 1
    if n == 0:
        return [F(0)]
    return [c * (n - i) for i, c in enumerate(p[:-1])]


def pmul(a, b):
    out = [F(0)] * (len(a) + len(b) - 1)
    for i, x in enumerate(a):
        for j, y in enumerate(b):
            out[i + j] += x * y
    return out


def padd(a, b):
    n = max(len(a), len(b))
    a = [F(0)] * (n - len(a)) + list(a)
    b = [F(0)] * (n - len(b)) + list(b)
    return [x + y for x, y in zip(a, b)]


def pscale(a, s):
    return [x * s for x in a]


def pdivmod(a, b):
    a = ptrim(a)
    b = ptrim(b)
    if b == [0]:
        raise ZeroDivisionError
    q = []
    a = list(a)
    while len(a) >= len(b):
        c = a[0] / b[0]
        q.append(c)
        for i in range(len(b)):
            a[i] -= c * b[i]
        a.pop(0)
    return (q or [F(0)]), (ptrim(a) if a else [F(0)])


def pgcd(a, b):
    a, b = ptrim(a), ptrim(b)
    while b != [0]:
        a, b = b, pdivmod(a, b)[1]
    return pscale(a, 1 / a[0]) if a != [0] else a


def squarefree(p):
    p = ptrim(p)
    if len(p) <= 1:
        return p
    g = pgcd(p, pderiv(p))
    if len(g) <= 1:
        return p
    return pdivmod(p, g)[0]


def sturm_chain(p):
    p = ptrim(p)
    chain = [p, pderiv(p)]
    while ptrim(chain[-1]) != [0] and len(ptrim(chain[-1])) > 1:
        r = pdivmod(chain[-2], chain[-1])[1]
        r = pscale(r, -1)
        if ptrim(r) == [0]:
            break
        chain.append(r)
    return chain


def _sign_changes(vals):
    s = [v for v in vals if v != 0]
    return sum(1 for a, b in zip(s, s[1:]) if (a < 0) != (b < 0))


def count_roots(chain, a, b):
    """number of distinct real roots in the half-open interval (a, b]"""
    return _sign_changes([peval(q, a) for q in chain]) - _sign_changes([peval(q, b) for q in chain])


def isolate(p, a, b, width=F(1, 10 ** 12), maxdepth=200):
    """distinct real roots of p in (a, b]: list of isolating intervals (lo, hi]
    each narrower than width.  p need not be square-free."""
    p = squarefree(p)
    if len(p) <= 1:
        return []
    chain = sturm_chain(p)
    out = []
    stack = [(F(a), F(b), count_roots(chain, F(a), F(b)), 0)]
    while stack:
        lo, hi, n, d = stack.pop()
        if n == 0:
            continue
        if n == 1 and hi - lo <= width:
            out.append((lo, hi))
            continue
        if d > maxdepth:
            out.append((lo, hi))
            continue
        mid = (lo + hi) / 2
        nl = count_roots(chain, lo, mid)
        stack.append((mid, hi, n - nl, d + 1))
        stack.append((lo, mid, nl, d + 1))
    out.sort()
    return out


def real_roots(coeffs, a, b, width=F(1, 10 ** 12)):
    """float midpoints of the distinct real roots of the polynomial (float or
    Fraction coefficients, highest first) in (a, b]"""
    p = ptrim([fr(c) for c in coeffs])
    return [float((lo + hi) / 2) for lo, hi in isolate(p, F(a), F(b), width)]


# --------------------------------------------------------------------------
# fast integer Sturm machinery (same mathematics as above, big-int arithmetic,
# dyadic evaluation points) -- used by the monitors, which call it ~1e5 times

from math import gcd
from functools import reduce


def to_int_poly(p):
    """Fraction coefficients -> integer coefficients of a positive multiple"""
    p = ptrim(p)
    den = reduce(lambda a, b: a * b // gcd(a, b), [F(c).denominator for c in p], 1)
    q = [int(F(c) * den) for c in p]
    g = reduce(gcd, [abs(c) for c in q]) or 1
    return [c // g for c in q]


def _itrim(p):
    i = 0
    while i < len(p) - 1 and p[i] == 0:
        i += 1
    return p[i:]


def _iprem_pos(a, b):
    """(|lc b|^d * a) mod b with integer coefficients, d = deg a - deg b + 1"""
    a, b = _itrim(list(a)), _itrim(list(b))
    d = len(a) - len(b) + 1
    if d <= 0:
        return a
    m = abs(b[0]) ** d
    a = [c * m for c in a]
    while len(a) >= len(b) and a != [0]:
        q = a[0] // b[0]
        for i in range(len(b)):
            a[i] -= q * b[i]
        a.pop(0)
        if not a:
            a = [0]
    a = _itrim(a) if a else [0]
    g = reduce(gcd, [abs(c) for c in a]) or 1
    return [c // g for c in a]


def _ideriv(p):
    n = len(p) - 1
    return [c * (n - i) for i, c in enumerate(p[:-1])] or [0]


def isturm(p):
    """Sturm chain (integer coefficients) of the integer polynomial p"""
    p = _itrim(list(p))
    chain = [p, _ideriv(p)]
    while len(chain[-1]) > 1:
        r = _iprem_pos(chain[-2], chain[-1])
        if r == [0]:
            break
        chain.append([-c for c in r])
    return chain


def _isign_at(p, num, k):
    """sign of p(num / 2^k)"""
    v = p[0]
    den = 1
    for c in p[1:]:
        den <<= k
        v = v * num + c * den
    return (v > 0) - (v < 0)


def _ivar(chain, num, k):
    s = [x for x in (_isign_at(q, num, k) for q in chain) if x]
    return sum(1 for a, b in zip(s, s[1:]) if a != b)


def _idivexact(a, b):
    """a / b for integer polynomials where b divides a up to a rational constant:
    returns an integer polynomial proportional to the quotient"""
    fa = [F(c) for c in a]
    fb = [F(c) for c in b]
    q, r = pdivmod(fa, fb)
    return to_int_poly(q)


def int_real_roots(p, width_bits=40):
    """All distinct real roots of the Fraction-coefficient polynomial p.
    Returns (list of (lo, hi, multiple?) with lo < root <= hi dyadic Fractions, each
    interval narrower than 2^-width_bits * max(1, |root|)), chain of the square-free part)."""
    ip = to_int_poly(p)
    if len(ip) <= 1:
        return [], None
    chain0 = isturm(ip)
    g = chain0[-1]
    if len(g) > 1:
        sf = _idivexact(ip, g)
        chain = isturm(sf)
        groots, _ = int_real_roots([F(c) for c in g], width_bits)
    else:
        sf, chain, groots = ip, chain0, []
    lead = abs(sf[0])
    bound = 2 + max(abs(c) for c in sf[1:]) // lead if len(sf) > 1 else 2
    kb = max(1, int(bound).bit_length())
    out = []
    stack = [(-(1 << kb), 1 << kb, 0, None, None)]
    while stack:
        lo, hi, k, vlo, vhi = stack.pop()
        if vlo is None:
            vlo = _ivar(chain, lo, k)
        if vhi is None:
            vhi = _ivar(chain, hi, k)
        n = vlo - vhi
        if n == 0:
            continue
        mag_bits = max(abs(lo), abs(hi)).bit_length() - k
        if n == 1 and (k - max(mag_bits, 0)) >= width_bits and hi - lo <= 2:
            out.append((F(lo, 1 << k), F(hi, 1 << k)))
            continue
        if hi - lo <= 1:
            lo, hi, k = lo * 2, hi * 2, k + 1
        mid = (lo + hi) // 2
        if _isign_at(sf, mid, k) == 0:
            # the midpoint is a root: fence it with two non-root points close by
            j = width_bits + 2 + max(mag_bits, 0)
            while True:
                a, b = (mid << j) - 1, (mid << j) + 1
                if _isign_at(sf, a, k + j) and _isign_at(sf, b, k + j):
                    va, vb = _ivar(chain, a, k + j), _ivar(chain, b, k + j)
                    if va - vb == 1:
                        break
                j += 4
            out.append((F(a, 1 << (k + j)), F(b, 1 << (k + j))))
            stack.append((b, hi << j, k + j, vb, vhi))
            stack.append((lo << j, a, k + j, vlo, va))
            continue
        vm = _ivar(chain, mid, k)
        stack.append((mid, hi, k, vm, vhi))
        stack.append((lo, mid, k, vlo, vm))
    out.sort()
    res = []
    for lo, hi in out:
        mult = any(not (ghi < lo or glo > hi) for glo, ghi, _ in groots)
        res.append((lo, hi, mult))
    return res, chain


def int_count(chain, lo, hi):
    """distinct real roots in (lo, hi] for Fractions lo < hi (any rationals)"""
    def var(x):
        x = F(x)
        s = []
        for q in chain:
            v = peval([F(c) for c in q], x)
            if v:
                s.append(v > 0)
        return sum(1 for a, b in zip(s, s[1:]) if a != b)
    return var(lo) - var(hi)
