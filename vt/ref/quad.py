"""Reference arc lengths (numpy only, no svgpathtools import).

bezier_bracket(bps, t0, t1, N) : rigorous bracket  [sum of chords, sum of control-polygon
                                 lengths] of a uniform subdivision into N pieces (blossoming)
bezier_quad(bps, t0, t1)       : composite 16-point Gauss-Legendre of |B'(t)| with a
                                 self-estimate of its error (two panel counts)
arc_* likewise from the centre parameterisation (cx, cy, rx, ry, phi, theta, delta).
"""
import math

import numpy as np

_GLX, _GLW = np.polynomial.legendre.leggauss(16)


def _blossom_sub(bps, a, b):
    """control points of the sub-curves on [a_i, b_i] (vectorised over arrays a, b)"""
    n = len(bps) - 1
    out = []
    for k in range(n + 1):
        # blossom with (n-k) arguments a and k arguments b
        pts = [np.full(a.shape, complex(p)) for p in bps]
        args = [a] * (n - k) + [b] * k
        for u in args:
            pts = [(1 - u) * pts[i] + u * pts[i + 1] for i in range(len(pts) - 1)]
        out.append(pts[0])
    return out


def bezier_bracket(bps, t0, t1, N=4096):
    bps = [complex(p) for p in bps]
    ts = np.linspace(t0, t1, N + 1)
    sub = _blossom_sub(bps, ts[:-1], ts[1:])
    lower = float(np.abs(sub[-1] - sub[0]).sum())
    upper = float(sum(np.abs(sub[i + 1] - sub[i]) for i in range(len(sub) - 1)).sum())
    mag = max(abs(p) for p in bps)
    slack = 64 * 2.0 ** -52 * N * mag
    return lower - slack, upper + slack


def _bez_speed(bps, t):
    n = len(bps) - 1
    d = [n * (bps[i + 1] - bps[i]) for i in range(n)]
    pts = [np.full(t.shape, complex(p)) for p in d]
    while len(pts) > 1:
        pts = [(1 - t) * pts[i] + t * pts[i + 1] for i in range(len(pts) - 1)]
    return np.abs(pts[0])


def _gl(f, t0, t1, panels):
    edges = np.linspace(t0, t1, panels + 1)
    h = (edges[1:] - edges[:-1]) / 2
    c = (edges[1:] + edges[:-1]) / 2
    x = c[:, None] + h[:, None] * _GLX[None, :]
    return float((f(x.ravel()).reshape(x.shape) * _GLW[None, :] * h[:, None]).sum())


def bezier_quad(bps, t0, t1):
    bps = [complex(p) for p in bps]
    f = lambda t: _bez_speed(bps, t)
    a = _gl(f, t0, t1, 128)
    b = _gl(f, t0, t1, 512)
    return b, abs(a - b)


def bezier_min_speed(bps, t0, t1):
    bps = [complex(p) for p in bps]
    t = np.linspace(t0, t1, 2049)
    s = _bez_speed(bps, t)
    return float(s.min()), float(s.max())


# --------------------------------------------------------------------------
def _arc_pt(cx, cy, rx, ry, phi, theta, delta, t):
    a = np.radians(theta + t * delta)
    c, s = math.cos(phi), math.sin(phi)
    x, y = rx * np.cos(a), ry * np.sin(a)
    return (cx + c * x - s * y) + 1j * (cy + s * x + c * y)


def _arc_speed(rx, ry, theta, delta, t):
    a = np.radians(theta + t * delta)
    return abs(math.radians(delta)) * np.sqrt((rx * np.sin(a)) ** 2 + (ry * np.cos(a)) ** 2)


def arc_bracket(cx, cy, rx, ry, phi, theta, delta, t0, t1, N=4096):
    ts = np.linspace(t0, t1, N + 1)
    pts = _arc_pt(cx, cy, rx, ry, phi, theta, delta, ts)
    lower = float(np.abs(pts[1:] - pts[:-1]).sum())
    sp = _arc_speed(rx, ry, theta, delta, ts)
    dt = (t1 - t0) / N
    k = abs(math.radians(delta))
    upper = float(((np.maximum(sp[1:], sp[:-1]) + k * k * max(rx, ry) * dt / 2) * dt).sum())
    mag = abs(complex(cx, cy)) + max(rx, ry)
    slack = 64 * 2.0 ** -52 * N * mag
    return lower - slack, upper + slack


def arc_quad(rx, ry, theta, delta, t0, t1):
    f = lambda t: _arc_speed(rx, ry, theta, delta, t)
    a = _gl(f, t0, t1, 64)
    b = _gl(f, t0, t1, 256)
    return b, abs(a - b)
