"""Independent reference for SVG path data (no svgpathtools import).

* ``tokenize(d)``  : tokenizer written from the SVG 1.1 / SVG 2 path-data BNF
                     (numbers, comma-wsp, single-character arc flags) -> program
* ``interpret(p)`` : interpreter of abstract programs written from the spec prose
                     (paths.html 8.3.2 - 8.3.9)
* ``render(p,rng)``: renders a program under a random legal lexical spelling

program = list of [letter, groups]; groups = list of argument lists (floats; arc
flags are 0/1 ints).  Output of interpret: list of segment tuples
    ('L', p0, p1) ('Q', p0, c, p1) ('C', p0, c1, c2, p1)
    ('A', p0, rx, ry, rot, large, sweep, p1)
each followed in a parallel list by (command index, group index, magnitude).
"""
import re

NARGS = {'M': 2, 'Z': 0, 'L': 2, 'H': 1, 'V': 1, 'C': 6, 'S': 4, 'Q': 4, 'T': 2, 'A': 7}
LETTERS = 'MmZzLlHhVvCcSsQqTtAa'

_NUM = re.compile(r'[-+]?(?:[0-9]+\.?[0-9]*|\.[0-9]+)(?:[eE][-+]?[0-9]+)?')
_WSP = ' \t\r\n\x0c'


class Ungrammatical(Exception):
    pass


def tokenize(d):
    """d-string -> program (raises Ungrammatical).  Arc flags are single
    characters '0' | '1' which need no separator (SVG 1.1 BNF: flag)."""
    i, n = 0, len(d)
    prog = []

    def skip_wsp(i):
        while i < n and d[i] in _WSP:
            i += 1
        return i

    def skip_comma_wsp(i):
        i = skip_wsp(i)
        if i < n and d[i] == ',':
            i = skip_wsp(i + 1)
        return i

    def number(i):
        m = _NUM.match(d, i)
        if not m:
            raise Ungrammatical('number expected at %d' % i)
        return float(m.group()), m.end()

    def flag(i):
        if i < n and d[i] in '01':
            return int(d[i]), i + 1
        raise Ungrammatical('flag expected at %d' % i)

    i = skip_wsp(i)
    while i < n:
        c = d[i]
        if c not in LETTERS:
            raise Ungrammatical('command expected at %d' % i)
        i = skip_wsp(i + 1)
        k = NARGS[c.upper()]
        groups = []
        if k:
            while True:
                g = []
                for j in range(k):
                    if c.upper() == 'A' and j in (3, 4):
                        v, i = flag(i)
                    else:
                        v, i = number(i)
                    g.append(v)
                    if j < k - 1:
                        i = skip_comma_wsp(i)
                groups.append(g)
                j0 = skip_comma_wsp(i)
                if j0 < n and (d[j0] in '+-.0123456789'):
                    i = j0
                    continue
                i = skip_wsp(i)
                break
        prog.append([c, groups])
    if prog and prog[0][0] not in 'Mm':
        raise Ungrammatical('path data must start with a moveto')
    return prog


def interpret(prog, cur=0j):
    segs, meta = [], []
    sub = None            # start of the current subpath
    last_ctrl = None
    last_kind = None      # 'C' after C/S, 'Q' after Q/T, else None
    trace = []            # (cur, sub) before each command
    for ci, (letter, groups) in enumerate(prog):
        trace.append((cur, sub))
        up = letter.upper()
        rel = letter != up
        if up == 'Z':
            if sub is not None and cur != sub:
                segs.append(('L', cur, sub))
                meta.append((ci, 0, abs(cur) + abs(sub)))
            if sub is not None:
                cur = sub
            last_kind = None
            continue
        for gi, g in enumerate(groups):
            mag = abs(cur) + sum(abs(x) for x in g if isinstance(x, float))
            if up == 'M' and gi == 0:
                p = complex(g[0], g[1])
                cur = cur + p if rel else p
                sub = cur
                last_kind = None
                continue
            if up in 'ML':
                p = complex(g[0], g[1])
                if rel:
                    p = p + cur
                segs.append(('L', cur, p))
                cur = p
                last_kind = None
            elif up == 'H':
                p = complex(g[0] + cur.real if rel else g[0], cur.imag)
                segs.append(('L', cur, p))
                cur = p
                last_kind = None
            elif up == 'V':
                p = complex(cur.real, g[0] + cur.imag if rel else g[0])
                segs.append(('L', cur, p))
                cur = p
                last_kind = None
            elif up == 'C':
                c1, c2, e = complex(g[0], g[1]), complex(g[2], g[3]), complex(g[4], g[5])
                if rel:
                    c1, c2, e = c1 + cur, c2 + cur, e + cur
                segs.append(('C', cur, c1, c2, e))
                cur, last_ctrl, last_kind = e, c2, 'C'
            elif up == 'S':
                c1 = cur + cur - last_ctrl if last_kind == 'C' else cur
                c2, e = complex(g[0], g[1]), complex(g[2], g[3])
                if rel:
                    c2, e = c2 + cur, e + cur
                segs.append(('C', cur, c1, c2, e))
                cur, last_ctrl, last_kind = e, c2, 'C'
            elif up == 'Q':
                c, e = complex(g[0], g[1]), complex(g[2], g[3])
                if rel:
                    c, e = c + cur, e + cur
                segs.append(('Q', cur, c, e))
                cur, last_ctrl, last_kind = e, c, 'Q'
            elif up == 'T':
                c = cur + cur - last_ctrl if last_kind == 'Q' else cur
                e = complex(g[0], g[1])
                if rel:
                    e = e + cur
                segs.append(('Q', cur, c, e))
                cur, last_ctrl, last_kind = e, c, 'Q'
            elif up == 'A':
                rx, ry, rot, la, sw = g[0], g[1], g[2], g[3], g[4]
                e = complex(g[5], g[6])
                if rel:
                    e = e + cur
                if rx == 0 or ry == 0:
                    segs.append(('L', cur, e))
                else:
                    segs.append(('A', cur, abs(rx), abs(ry), rot, bool(la), bool(sw), e))
                cur = e
                last_kind = None
            meta.append((ci, gi, mag))
    return segs, meta, trace


# --------------------------------------------------------------------------
# lexical rendering

def spell(v, rng):
    """a legal spelling s of the double v with float(s) == v"""
    r = repr(float(v))
    cands = [r]
    if r.endswith('.0'):
        cands += [r[:-2], r[:-2], r + '00', r[:-2] + 'e0', r[:-2] + 'E+0', r[:-2] + '0e-1']
    if r.startswith('0.') and 'e' not in r:
        cands.append(r[1:])
    if r.startswith('-0.') and 'e' not in r:
        cands.append('-' + r[2:])
    if not r.startswith('-'):
        cands.append('+' + r)
    if 'e' in r:
        cands += [r.replace('e', 'E'), r.replace('e-0', 'e-').replace('e+0', 'e+')]
    else:
        cands += [r + 'e0', r + '0']
        if '.' in r:
            cands.append(r + 'E-0')
    s = rng.choice(cands)
    try:
        if float(s) == float(v) and (repr(float(s)) == r):
            return s
    except ValueError:
        pass
    return r


def _sep(a, b, rng):
    opts = [',', ' ', ' , ', '\n', '\t', '  ', ', ']
    if b[0] in '+-':
        opts += ['', '']
    if b[0] == '.' and ('.' in a or 'e' in a or 'E' in a):
        opts += ['', '']
    return rng.choice(opts)


def render(prog, rng, glue_flags=False):
    out = []
    for letter, groups in prog:
        out.append(rng.choice(['', ' ', '']) if out else rng.choice(['', ' ']))
        out.append(letter)
        prev = None
        first = True
        for g in groups:
            for j, v in enumerate(g):
                is_flag = letter.upper() == 'A' and j in (3, 4)
                s = str(int(v)) if is_flag else spell(v, rng)
                if first:
                    out.append(rng.choice(['', ' ', '  ']))
                    first = False
                elif is_flag:
                    if j == 4 and glue_flags:
                        out.append('')
                    else:
                        out.append(rng.choice([' ', ',', ' , ']))
                elif letter.upper() == 'A' and j == 5:
                    if glue_flags and rng.random() < 0.7:
                        out.append('')
                    else:
                        out.append(rng.choice([' ', ',', '\t']))
                else:
                    out.append(_sep(prev, s, rng))
                out.append(s)
                prev = s
    out.append(rng.choice(['', ' ', '\n']))
    return ''.join(out)
