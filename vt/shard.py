"""Child process: one shard of one check in one configuration."""
import argparse
import importlib
import json
import os
import sys
import time


def main(argv=None):
    ap = argparse.ArgumentParser()
    ap.add_argument('--prop', required=True)
    ap.add_argument('--tier', default='quick')
    ap.add_argument('--seed', type=int, default=0)
    ap.add_argument('--shard', type=int, default=0)
    ap.add_argument('--nshards', type=int, default=1)
    ap.add_argument('--config', default='scipy')
    ap.add_argument('--out', required=True)
    ap.add_argument('--replay', default=None)
    ap.add_argument('--budget', type=float, default=None, help='wall seconds for case generation')
    a = ap.parse_args(argv)

    from . import boot, core, monitor
    boot.boot(a.config)
    mod = importlib.import_module('vt.checks.' + a.prop.lower())
    ctx = core.Ctx(a.prop, a.tier, a.seed, a.shard, a.nshards, a.config)
    core.CTX = ctx
    reach = monitor.Reach(os.path.join(boot.REPO, 'svgpathtools'))
    reach.start()
    mod.install(ctx)

    if a.replay:
        with open(a.replay) as f:
            rep = json.load(f)
        cases = [w['case'] for w in rep['witnesses'] if w.get('config', 'scipy') == a.config]
    else:
        cases = mod.cases(ctx)
    case_timeout = getattr(mod, 'CASE_TIMEOUT', 30)
    budget = a.budget
    t0 = time.time()
    stopped_early = False
    for case in cases:
        if budget is not None and time.time() - t0 > budget:
            stopped_early = True
            break
        ctx.begin_case(case)
        try:
            with core.case_watchdog(case_timeout):
                mod.run_case(ctx, case)
        except core.Skip as s:
            ctx.skip(s.reason)
        except core.VTTimeout:
            ctx.timeouts += 1
        except (KeyboardInterrupt, SystemExit):
            raise
        except BaseException as e:   # noqa
            site, in_repo = core.crash_site(e, boot.REPO)
            import traceback
            tb = traceback.format_exc()
            if in_repo and type(e).__name__ == 'LinAlgError' and not getattr(ctx, '_retrying', False):
                # LAPACK non-convergence is charged only when it repeats (vt/monitor.py:_reproducible, DESIGN 6.3)
                ctx._retrying = True
                try:
                    with core.case_watchdog(case_timeout):
                        mod.run_case(ctx, case)
                    ctx.note('unreproducible_LinAlgError_not_charged:case')
                    in_repo = None
                except core.Skip as s2:
                    ctx.skip(s2.reason)
                    in_repo = None
                except core.VTTimeout:
                    ctx.timeouts += 1
                    in_repo = None
                except (KeyboardInterrupt, SystemExit):
                    raise
                except BaseException as e2:   # noqa
                    e = e2
                    site, in_repo = core.crash_site(e, boot.REPO)
                    tb = traceback.format_exc()
                finally:
                    ctx._retrying = False
            if in_repo is None:
                pass
            elif in_repo:
                key = mod.crash_key(ctx, case, e, site) if hasattr(mod, 'crash_key') else \
                    'crash/%s@%s' % (type(e).__name__, site)
                if key is None:
                    ctx.skip('tolerated exception %s@%s' % (type(e).__name__, site))
                else:
                    ctx.violation(key, 'library raised %s: %s' % (type(e).__name__, str(e)[:200]),
                                  {'traceback': tb[-1500:]})
            else:
                ctx.errors.append({'case': case, 'traceback': tb[-2000:]})
        finally:
            ctx.end_case()
    if hasattr(mod, 'finish'):
        mod.finish(ctx)
    reach.stop()
    res = ctx.result(monitor.counts(), reach.by_function())
    res['stopped_early'] = stopped_early
    with open(a.out, 'w') as f:
        json.dump(res, f, default=repr)
    return 0


if __name__ == '__main__':
    sys.exit(main())
