"""Parent: runs one check (all shards x configurations), merges, decides.

exit 0  every monitor evaluation held (known findings printed as KNOWN-FINDING)
exit 1  VIOLATION property=<id> replay=<path>   (a mechanism not in known_findings.json)
exit 2  INCONCLUSIVE property=<id> reason=...   (watchdog, dead shard, monitor never reached)
"""
import argparse
import importlib
import json
import os
import shutil
import subprocess
import sys
import time

from . import core

VERIF = core.VERIF
PY = os.environ.get('VT_PYTHON', '/venv/bin/python')


def _validate_evidence(path):
    try:
        sys.path.append(os.path.join(VERIF, '.deps'))
        import jsonschema
    except Exception:
        return 'jsonschema unavailable'
    with open(os.path.join(VERIF, 'schemas', 'EVIDENCE.schema.json')) as f:
        schema = json.load(f)
    with open(path) as f:
        ev = json.load(f)
    jsonschema.validate(ev, schema)
    return 'validated'


def run_check(prop, tier, seed, replay=None, jobs=None, quiet=False):
    t0 = time.time()
    mod = importlib.import_module('vt.checks.' + prop.lower())
    plan = mod.TIERS[tier]
    configs = list(getattr(mod, 'CONFIGS', ['scipy']))
    nsh = plan.get('shards', 14)
    if replay:
        nsh = 1
    jobs = jobs or int(os.environ.get('VT_JOBS', '14'))
    work = os.path.join(VERIF, '.work', '%s-%s-%d-%d' % (prop, tier, seed, os.getpid()))
    os.makedirs(work, exist_ok=True)
    env = dict(os.environ)
    env['PYTHONHASHSEED'] = '0'
    env['PYTHONDONTWRITEBYTECODE'] = '1'
    env['OMP_NUM_THREADS'] = env['OPENBLAS_NUM_THREADS'] = env['MKL_NUM_THREADS'] = '1'
    env['PYTHONPATH'] = VERIF
    env['VT_WORK'] = work
    todo = []
    for cfg in configs:
        n = nsh if cfg == configs[0] else max(1, plan.get('shards_alt', nsh))
        for i in range(n):
            out = os.path.join(work, 'shard-%s-%d.json' % (cfg, i))
            cmd = [PY, '-m', 'vt.shard', '--prop', prop, '--tier', tier, '--seed', str(seed),
                   '--shard', str(i), '--nshards', str(n), '--config', cfg, '--out', out]
            # thorough tiers stop generating cases at 80% of the shard watchdog: a shard that ran out of time
            # still reports what it observed (the evidence says how many shards stopped early) instead of being
            # killed and turning the whole run inconclusive
            budget = plan.get('budget', int(0.8 * plan.get('timeout', 900)) if tier == 'thorough' else None)
            if budget:
                cmd += ['--budget', str(budget)]
            if replay:
                cmd += ['--replay', os.path.abspath(replay)]
            todo.append((cfg, i, out, cmd))
    if not replay and (tier == 'thorough' or os.environ.get('VT_WITH_TESTS')) and getattr(mod, 'WITH_REPO_TESTS', True):
        # incidental workload: the repository's own tests under this property's monitors (vt/pytest_plugin.py)
        repo = os.path.realpath(os.environ.get('VT_REPO', '/repo'))
        out = os.path.join(work, 'shard-repo-tests.json')
        cmd = ['env', 'VT_PROP=' + prop, 'VT_TIER=' + tier, 'VT_SEED=%d' % seed, 'VT_OUT=' + out,
               PY, '-m', 'pytest', '-q', '--no-header', '-p', 'no:cacheprovider', '-p', 'vt.pytest_plugin',
               '--timeout=900', '--continue-on-collection-errors', os.path.join(repo, 'test')]
        todo.append(('repo-tests', 0, out, cmd))
    timeout = plan.get('timeout', 900)
    running, results, dead = [], [], []
    pending = list(todo)
    while pending or running:
        while pending and len(running) < jobs:
            cfg, i, out, cmd = pending.pop(0)
            log = open(out + '.log', 'w')
            p = subprocess.Popen(cmd, cwd=(os.path.realpath(os.environ.get('VT_REPO', '/repo')) if cfg == 'repo-tests' else VERIF),
                                 env=env, stdout=log, stderr=subprocess.STDOUT)
            running.append((cfg, i, out, p, time.time(), log))
        still = []
        for cfg, i, out, p, ts, log in running:
            rc = p.poll()
            if rc is None:
                if time.time() - ts > timeout:
                    p.kill()
                    p.wait()
                    log.close()
                    dead.append('%s/%d: shard watchdog (%ds)' % (cfg, i, timeout))
                else:
                    still.append((cfg, i, out, p, ts, log))
                continue
            log.close()
            if (rc != 0 and cfg != 'repo-tests') or not os.path.exists(out):
                tail = open(out + '.log').read()[-800:]
                dead.append('%s/%d: exit %s: %s' % (cfg, i, rc, tail))
            else:
                with open(out) as f:
                    results.append(json.load(f))
        running = still
        if running:
            time.sleep(0.05)

    # ---- merge ----------------------------------------------------------
    hashes = set()
    merged = {'cases': 0, 'classes': {}, 'skips': {}, 'branches': {}, 'notes': {}, 'timeouts': 0,
              'monitors': {}, 'violations': {}, 'samples': [], 'errors': [], 'n_errors': 0,
              'reach': {}, 'per_config_cases': {}, 'stopped_early': 0}
    for r in results:
        merged['cases'] += r['cases']
        merged['per_config_cases'][r['config']] = merged['per_config_cases'].get(r['config'], 0) + r['cases']
        hashes.update((r['config'], h) for h in r['case_hashes'])
        for fld in ('classes', 'skips', 'branches', 'notes'):
            for k, v in r[fld].items():
                merged[fld][k] = merged[fld].get(k, 0) + v
        merged['timeouts'] += r['timeouts']
        merged['n_errors'] += r['n_errors']
        merged['errors'] += r['errors'][:2]
        merged['stopped_early'] += 1 if r.get('stopped_early') else 0
        for k, v in r['monitors'].items():
            m = merged['monitors'].setdefault(k, {'calls': 0, 'evals': 0, 'raised': 0})
            for f in m:
                m[f] += v[f]
        for k, v in r['violations'].items():
            m = merged['violations'].setdefault(k, {'count': 0, 'what': v['what'], 'witnesses': []})
            m['count'] += v['count']
            if len(m['witnesses']) < 3:
                m['witnesses'] += v['witnesses'][:3 - len(m['witnesses'])]
        if len(merged['samples']) < 6:
            merged['samples'] += r['samples'][:2]
        for k, v in r['reach'].items():
            merged['reach'].setdefault(k, set()).update(v)

    evaluations = sum(v['evals'] for v in merged['monitors'].values())
    known = core.known_open(prop)
    lines, unknown, known_hit = [], [], []
    os.makedirs(os.path.join(VERIF, 'replays'), exist_ok=True)
    if not replay:
        for fn in os.listdir(os.path.join(VERIF, 'replays')):
            if fn.startswith(prop + '-') and os.environ.get('VT_REPO') is None:
                os.remove(os.path.join(VERIF, 'replays', fn))
    for key in sorted(merged['violations']):
        v = merged['violations'][key]
        if key in known:
            known_hit.append(key)
            lines.append('KNOWN-FINDING: property=%s %s [key=%s, seen %d times]' % (
                prop, known[key]['what'], key, v['count']))
        else:
            rp = os.path.join(VERIF, 'replays', '%s-%012x.json' % (prop, core.stable_hash(key)))
            with open(rp, 'w') as f:
                json.dump({'property': prop, 'key': key, 'what': v['what'], 'count': v['count'],
                           'witnesses': v['witnesses']}, f, indent=1, default=repr)
            unknown.append((key, rp))
            lines.append('VIOLATION property=%s replay=%s' % (prop, rp))
            lines.append('  key=%s count=%d: %s' % (key, v['count'], v['what']))
    for key in sorted(set(known) - set(known_hit)):
        # a listed finding that this run did not meet: say so (not an alarm)
        lines.append('note: known finding not met in this run: %s' % key)

    inconclusive = []
    if dead:
        inconclusive.append('dead shards: ' + ' | '.join(d[:300] for d in dead))
    if merged['n_errors']:
        inconclusive.append('%d harness errors, first: %s' % (
            merged['n_errors'], merged['errors'][0]['traceback'][-600:] if merged['errors'] else '?'))
    if not replay:
        for name in getattr(mod, 'DECIDING', []):
            if merged['monitors'].get(name, {}).get('evals', 0) == 0:
                inconclusive.append('deciding monitor %s evaluated nothing' % name)
        for b in plan.get('require_branches', getattr(mod, 'REQUIRED_BRANCHES', [])):
            if merged['branches'].get(b, 0) == 0:
                inconclusive.append('required branch/class %s never reached' % b)
        if plan.get('exhaustive') and merged['stopped_early']:
            inconclusive.append('%d shards ran out of time before the exhaustive enumeration was complete' % merged['stopped_early'])
        if merged['cases'] < plan.get('min_cases', 1):
            inconclusive.append('only %d cases (< %d)' % (merged['cases'], plan.get('min_cases', 1)))
        if merged['timeouts'] > plan.get('max_timeouts', 0):
            inconclusive.append('%d case watchdogs fired' % merged['timeouts'])
    distinct = len(hashes)

    # ---- evidence -------------------------------------------------------
    if not replay:
        reach = {k: len(v) for k, v in merged['reach'].items()}
        anchored = getattr(mod, 'ANCHORED', None)
        if anchored:
            reach = {k: v for k, v in reach.items() if any(a in k for a in anchored)}
        ev = {
            'property_id': prop, 'tier': tier, 'seed': seed, 'level': 'exploration',
            'coverage': {
                'evaluations': max(evaluations, 0),
                'distinct_nontrivial': distinct,
                'rule': mod.RULE,
                'samples': merged['samples'][:6] or ['<none>'],
                'exhaustive': bool(plan.get('exhaustive', False)) and not merged['stopped_early'],
                'shards_stopped_at_time_budget': merged['stopped_early'],
                'cases': merged['cases'],
                'cases_per_config': merged['per_config_cases'],
                'monitor_evaluations': {k: v for k, v in sorted(merged['monitors'].items())},
                'input_classes': dict(sorted(merged['classes'].items())),
                'skipped': merged['skips'],
                'branches_reached': dict(sorted(merged['branches'].items())),
                'observed': dict(sorted(merged['notes'].items())),
                'lines_reached_per_function': dict(sorted(reach.items())),
                'configs': configs,
                'known_findings_met': known_hit,
                'unlisted_violation_keys': [k for k, _ in unknown],
                'inconclusive_reasons': inconclusive,
                'case_watchdogs_fired': merged['timeouts'],
            },
            'assumptions': list(getattr(mod, 'ASSUMPTIONS', [])),
            'wall_s': round(time.time() - t0, 2),
            'violations': len(unknown),
        }
        # evidence/ describes runs against /repo only; a run against a scratch copy (VT_REPO: self-test mutants, seeded
        # changes) writes its evidence next to its other scratch output
        evdir = os.path.join(VERIF, 'evidence')
        if os.path.realpath(os.environ.get('VT_REPO', '/repo')) != os.path.realpath('/repo') or \
                os.environ.get('VT_EVIDENCE_SCRATCH'):        # (/repo with a seeded change applied: tools/seed_on_repo.py)
            evdir = os.path.join(VERIF, '.work', 'evidence-scratch')
        os.makedirs(evdir, exist_ok=True)
        evp = os.path.join(evdir, '%s.json' % prop)
        with open(evp, 'w') as f:
            json.dump(ev, f, indent=1, default=repr)
        try:
            _validate_evidence(evp)
        except Exception as e:   # evidence must validate; otherwise say so loudly
            inconclusive.append('evidence does not validate: %s' % str(e)[:300])

    shutil.rmtree(work, ignore_errors=True)
    for ln in lines:
        print(ln)
    summary = ('%s tier=%s seed=%d cases=%d distinct=%d evaluations=%d known=%d wall=%.1fs' % (
        prop, tier, seed, merged['cases'], distinct, evaluations, len(known_hit), time.time() - t0))
    if unknown:
        print('RESULT violated: ' + summary)
        return 1
    if inconclusive:
        for r in inconclusive:
            print('INCONCLUSIVE property=%s reason=%s' % (prop, r))
        print('RESULT inconclusive: ' + summary)
        return 2
    print('RESULT held: ' + summary)
    return 0


def main(argv=None):
    ap = argparse.ArgumentParser()
    ap.add_argument('prop')
    ap.add_argument('--tier', default=os.environ.get('VERIF_TIER', 'quick'))
    ap.add_argument('--seed', type=int, default=int(os.environ.get('VERIF_SEED', '0') or 0))
    ap.add_argument('--replay', default=None)
    ap.add_argument('--jobs', type=int, default=None)
    a = ap.parse_args(argv)
    if a.tier not in ('quick', 'thorough'):
        a.tier = 'quick'
    return run_check(a.prop.upper(), a.tier, a.seed, a.replay, a.jobs)


if __name__ == '__main__':
    sys.exit(main())
