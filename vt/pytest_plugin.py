"""Incidental workload: the repository's own test-suite executed under one property's monitors.

Used by the thorough tier (vt.run starts `pytest -p vt.pytest_plugin` as one more shard).  The
tests' own assertions are irrelevant here; what counts is that every monitored call they make
is judged by the property's oracle.  Environment: VT_PROP, VT_TIER, VT_SEED, VT_OUT.
"""
import importlib
import json
import os

from . import boot, core, monitor

_state = {}


def pytest_configure(config):
    prop = os.environ['VT_PROP']
    boot.boot('scipy')
    mod = importlib.import_module('vt.checks.' + prop.lower())
    ctx = core.Ctx(prop, os.environ.get('VT_TIER', 'thorough'), int(os.environ.get('VT_SEED', '0')), 0, 1, 'scipy')
    core.CTX = ctx
    mod.install(ctx)
    _state.update(ctx=ctx, mod=mod)


def pytest_runtest_setup(item):
    ctx = _state['ctx']
    ctx.begin_case({'kind': 'repo-test', 'test': item.nodeid, 'cls': ['repo-test-suite']})


def pytest_runtest_teardown(item, nextitem):
    _state['ctx'].end_case()


def pytest_sessionfinish(session, exitstatus):
    ctx = _state['ctx']
    res = ctx.result(monitor.counts(), {})
    res['config'] = 'repo-tests'
    with open(os.environ['VT_OUT'], 'w') as f:
        json.dump(res, f, default=repr)
