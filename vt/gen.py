"""Seeded hostile generators and JSON-able case descriptors.

Everything a driver feeds to the library is described by a *spec* made of JSON
values, so a witness file replays exactly (json round-trips Python floats and
ints exactly; -0.0 too).

point spec   : number (int/float, kept as that Python type) | [re, im] (complex)
               | {"np": [re, im]} (numpy.complex128) | {"npf": x} (numpy.float64)
segment spec : ["L", p0, p1] | ["Q", p0, p1, p2] | ["C", p0, p1, p2, p3]
               | ["A", start, radius, rotation, large_arc, sweep, end]
"""
import math

import numpy as np

EPS = 2.0 ** -52


# --------------------------------------------------------------------------
# spec <-> objects

def pt(s):
    if isinstance(s, list):
        return complex(s[0], s[1])
    if isinstance(s, dict):
        if 'np' in s:
            return np.complex128(complex(s['np'][0], s['np'][1]))
        return np.float64(s['npf'])
    return s


def pt_spec(z):
    if isinstance(z, (np.complexfloating,)):
        return {'np': [float(z.real), float(z.imag)]}
    if isinstance(z, (np.floating,)):
        return {'npf': float(z)}
    if isinstance(z, (np.integer,)):
        return int(z)
    if isinstance(z, complex):
        return [z.real, z.imag]
    return z


def seg(spec):
    from svgpathtools import Line, QuadraticBezier, CubicBezier, Arc
    k = spec[0]
    if k == 'L':
        return Line(pt(spec[1]), pt(spec[2]))
    if k == 'Q':
        return QuadraticBezier(pt(spec[1]), pt(spec[2]), pt(spec[3]))
    if k == 'C':
        return CubicBezier(pt(spec[1]), pt(spec[2]), pt(spec[3]), pt(spec[4]))
    if k == 'A':
        return Arc(pt(spec[1]), pt(spec[2]), spec[3], spec[4], spec[5], pt(spec[6]))
    raise ValueError(spec)


def seg_spec(s):
    n = type(s).__name__
    if n == 'Line':
        return ['L', pt_spec(s.start), pt_spec(s.end)]
    if n == 'QuadraticBezier':
        return ['Q', pt_spec(s.start), pt_spec(s.control), pt_spec(s.end)]
    if n == 'CubicBezier':
        return ['C', pt_spec(s.start), pt_spec(s.control1), pt_spec(s.control2), pt_spec(s.end)]
    if n == 'Arc':
        return ['A', pt_spec(s.start), pt_spec(s.radius), pt_spec(s.rotation),
                bool(s.large_arc), bool(s.sweep), pt_spec(s.end)]
    raise ValueError(s)


def path(specs):
    from svgpathtools import Path
    return Path(*[seg(s) for s in specs])


def path_spec(p):
    return [seg_spec(s) for s in p]


def spec_points(spec):
    """the defining points of a segment spec as python complex numbers"""
    if spec[0] == 'A':
        return [complex(pt(spec[1])), complex(pt(spec[6]))]
    return [complex(pt(x)) for x in spec[1:]]


# --------------------------------------------------------------------------
# coordinates

EXPFMT = [1e-05, 1e16, 1.5e22, 2.5e-07, 1e-10, 3e+20, 1.25e-05, 7e+18, 6.02e+23, 1e-300,
          4.9e-324, 1.7976931348623157e+308 / 4, 123456789012345680.0, 9.999999999999999e-05]


def coord(rng, cls):
    if cls == 'int':
        return float(rng.randint(-20, 20))
    if cls == 'half':
        return rng.randint(-40, 40) / 2.0
    if cls == 'dyadic':
        return rng.randint(-4096, 4096) / float(2 ** rng.randint(0, 10))
    if cls == 'rand':
        return rng.uniform(-100, 100)
    if cls == 'unit':
        return rng.uniform(-1, 1)
    if cls == 'tiny':
        return rng.choice((-1, 1)) * 10.0 ** rng.uniform(-300, -7)
    if cls == 'huge':
        return rng.choice((-1, 1)) * 10.0 ** rng.uniform(6, 18)
    if cls == 'expfmt':
        return rng.choice((-1, 1)) * rng.choice(EXPFMT[:9])
    if cls == 'mixed':
        return coord(rng, rng.choice(['int', 'half', 'rand', 'tiny', 'huge', 'expfmt', 'dyadic']))
    if cls == 'third':
        return rng.randint(-30, 30) / 3.0
    raise ValueError(cls)


def cpoint(rng, cls):
    return complex(coord(rng, cls), coord(rng, cls))


def scaled_point(rng, scale):
    return complex(rng.uniform(-scale, scale), rng.uniform(-scale, scale))


def distinct_point(rng, cls, others, tries=50):
    for _ in range(tries):
        z = cpoint(rng, cls)
        if all(z != o for o in others):
            return z
    return others[-1] + (1 + 1j)


def rand_arc_spec(rng, start, end, cls='rand'):
    """arc between two given distinct points with hostile radius/rotation"""
    chord = abs(end - start)
    kind = rng.random()
    if kind < 0.3:     # far too small -> auto-enlarged
        rx, ry = chord * rng.uniform(0.01, 0.4), chord * rng.uniform(0.01, 0.4)
    elif kind < 0.4:   # exactly fitting circle (diameter = chord)
        rx = ry = chord / 2
    else:
        rx, ry = chord * rng.uniform(0.5, 4), chord * rng.uniform(0.5, 4)
    if rx == 0 or ry == 0 or not math.isfinite(rx) or not math.isfinite(ry):
        rx = ry = 1.0
    rot = rng.choice([0, 0.0, 90, 180, 33.3, -725.5, 45.0, rng.uniform(-360, 720)])
    return ['A', [start.real, start.imag], [rx, ry], rot, rng.random() < 0.5, rng.random() < 0.5,
            [end.real, end.imag]]


def rand_seg_spec(rng, kind, start, cls='rand', end=None):
    if end is None:
        end = distinct_point(rng, cls, [start])
    s = [start.real, start.imag]
    e = [end.real, end.imag]
    if kind == 'L':
        return ['L', s, e]
    if kind == 'Q':
        c = cpoint(rng, cls)
        return ['Q', s, [c.real, c.imag], e]
    if kind == 'C':
        c1, c2 = cpoint(rng, cls), cpoint(rng, cls)
        return ['C', s, [c1.real, c1.imag], [c2.real, c2.imag], e]
    if kind == 'A':
        return rand_arc_spec(rng, start, end, cls)
    raise ValueError(kind)


def rand_path_specs(rng, kinds, cls='rand', closure='open', start=None):
    """continuous path through random points; closure in
    open | line (closed, last segment a Line) | curve (closed, last segment is kinds[-1])"""
    p = cpoint(rng, cls) if start is None else start
    first = p
    out = []
    n = len(kinds)
    for i, k in enumerate(kinds):
        end = None
        if closure == 'curve' and i == n - 1:
            end = first
        if end is not None and end == p:
            end = None
        s = rand_seg_spec(rng, k, p, cls, end)
        out.append(s)
        p = complex(*s[-1])
    if closure == 'line' and p != first:
        out.append(['L', [p.real, p.imag], [first.real, first.imag]])
    return out


def ulps(x, y):
    """distance between two finite doubles in units of the larger one's ulp"""
    if x == y:
        return 0.0
    m = max(abs(x), abs(y))
    return abs(x - y) / (math.ulp(m))
