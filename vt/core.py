"""Shard context, verdict merging, evidence and known-finding handling."""
import hashlib
import json
import os
import random
import signal
import sys
import time
import traceback

VERIF = os.path.dirname(os.path.dirname(os.path.abspath(__file__)))
CTX = None   # the current shard context (set by vt.shard)


class VTTimeout(BaseException):
    """the harness's own watchdog (BaseException so that neither a driver's nor an oracle's `except Exception`
    mistakes it for the library raising)"""


class Skip(Exception):
    """raised by a driver to abandon a case whose precondition fails"""

    def __init__(self, reason):
        Exception.__init__(self, reason)
        self.reason = reason


def stable_hash(obj):
    s = json.dumps(obj, sort_keys=True, default=repr)
    return int(hashlib.blake2b(s.encode(), digest_size=7).hexdigest(), 16)


class Ctx(object):
    def __init__(self, prop, tier, seed, shard, nshards, config):
        self.prop = prop
        self.tier = tier
        self.seed = seed
        self.shard = shard
        self.nshards = nshards
        self.config = config
        self.rng = random.Random('%s/%s/%d/%d/%s' % (prop, tier, seed, shard, config))
        self.cases = 0
        self.case_hashes = set()       # distinct non-trivial case descriptors
        self.classes = {}
        self.skips = {}
        self.violations = {}           # key -> {count, what, witnesses}
        self.samples = []
        self.branches = {}
        self.notes = {}
        self.timeouts = 0
        self.errors = []
        self.current = None
        self._trivial = False
        self._verdicts = 0
        self.t0 = time.time()

    # --- bookkeeping used by drivers and oracles -------------------------
    def begin_case(self, case):
        self.current = case
        self.cases += 1
        self._trivial = False
        self._verdicts = 0
        for c in case.get('cls', ()):
            self.classes[c] = self.classes.get(c, 0) + 1

    def end_case(self):
        case = self.current
        if case is not None and self._verdicts > 0 and not self._trivial:
            self.case_hashes.add(stable_hash(case))
            if len(self.samples) < 3 or (self.cases % 997 == 0 and len(self.samples) < 8):
                self.samples.append(case)
        self.current = None

    def verdict(self, n=1):
        """an oracle reached a verdict for the current case"""
        self._verdicts += n

    def mark_trivial(self):
        self._trivial = True

    def skip(self, reason):
        self.skips[reason] = self.skips.get(reason, 0) + 1

    def branch(self, name, n=1):
        self.branches[name] = self.branches.get(name, 0) + n

    def note(self, name, n=1):
        self.notes[name] = self.notes.get(name, 0) + n

    def violation(self, key, what, detail=None):
        v = self.violations.setdefault(key, {'count': 0, 'what': what, 'witnesses': []})
        v['count'] += 1
        if len(v['witnesses']) < 2:
            v['witnesses'].append({'case': self.current, 'detail': detail,
                                   'config': self.config, 'seed': self.seed,
                                   'shard': self.shard, 'tier': self.tier})

    def result(self, monitors, reach=None):
        return {
            'prop': self.prop, 'tier': self.tier, 'seed': self.seed, 'shard': self.shard,
            'config': self.config, 'cases': self.cases,
            'case_hashes': sorted(self.case_hashes), 'classes': self.classes,
            'skips': self.skips, 'violations': self.violations, 'samples': self.samples,
            'branches': self.branches, 'notes': self.notes, 'timeouts': self.timeouts,
            'errors': self.errors[:5], 'n_errors': len(self.errors),
            'monitors': monitors, 'reach': reach or {},
            'wall_s': time.time() - self.t0,
        }


class case_watchdog(object):
    """wall-clock watchdog around one case; firing => inconclusive, never a violation"""

    def __init__(self, seconds):
        self.seconds = seconds

    def _fire(self, signum, frame):
        raise VTTimeout()

    def __enter__(self):
        if self.seconds:
            self.outer = signal.getitimer(signal.ITIMER_REAL)[0]      # an enclosing watchdog's remaining time
            self.t0 = time.time()
            self.old = signal.signal(signal.SIGALRM, self._fire)
            signal.setitimer(signal.ITIMER_REAL, self.seconds)

    def __exit__(self, *a):
        if self.seconds:
            signal.setitimer(signal.ITIMER_REAL, 0)
            signal.signal(signal.SIGALRM, self.old)
            if self.outer:
                signal.setitimer(signal.ITIMER_REAL, max(0.01, self.outer - (time.time() - self.t0)))
        return False


def crash_site(exc, repo_root):
    """Who raised?  Walk the traceback from the innermost frame outwards and
    stop at the first frame that belongs either to the repository (=> the
    library raised, possibly through numpy/stdlib) or to the harness.
    Returns ('file:function' of the innermost repository frame or None,
             True iff the library is responsible)."""
    tb = traceback.extract_tb(exc.__traceback__)
    site = None
    for fr in tb:
        if os.path.realpath(fr.filename).startswith(repo_root + os.sep):
            site = '%s:%s' % (os.path.basename(fr.filename), fr.name)
    vt_root = os.path.join(VERIF, 'vt') + os.sep
    for fr in reversed(tb):
        fn = os.path.realpath(fr.filename)
        if fn.startswith(repo_root + os.sep):
            return site, True
        if fn.startswith(vt_root):
            return site, False
    return site, False


# ---------------------------------------------------------------------------
# known findings

def load_known():
    p = os.path.join(VERIF, 'known_findings.json')
    if not os.path.exists(p):
        return []
    with open(p) as f:
        return json.load(f)['findings']


def known_open(prop):
    return {e['key']: e for e in load_known()
            if e['property'] == prop and e.get('status', 'open') == 'open'}
