"""C10 - translated/rotated/scaled/transform commute with point evaluation.

Monitors: the module functions translate, rotate, scale, transform (the methods delegate;
          the per-segment calls made for a Path are judged too) and
          transform_segments_together.
Oracle  : out.point(t) vs the map applied to in.point(t) at 9 parameters; for paths
          segment-wise plus *exact* preservation of every joint that coincided exactly,
          including the closing joint.
"""
import math

import numpy as np

from .. import core, gen, monitor
from ..ref import arc as RA

PROP = 'C10'
CONFIGS = ['scipy']
DECIDING = ['path.translate', 'path.rotate', 'path.scale', 'path.transform', 'path.transform_segments_together']
ANCHORED = ['translate', 'rotate', 'scale', 'transform', 'transform_segments_together', 'Path.joints']
RULE = ('cases = one segment or path (all types; arcs rotated/unrotated, circular or not, all flag pairs; closed Bezier paths, closed '
        'arc paths, open paths) with one operation: translated(z), rotated(deg[, origin]), scaled(sx[, sy][, origin]) or '
        'transform(M) for M in {identity, translation, rotation, uniform/non-uniform/negative scale, reflection, shear, products; '
        'cond <= 1e3}; distinct by spec + operation; non-trivial if an oracle verdict was reached')
RULE += "; nearly equal scale factors; the result path's start/end/isclosed() against its own segments"
ASSUMPTIONS = ['the input object\'s own point() is the reference curve',
               'Bezier results are compared to 64*eps*(|M|*size + |shift|)*cond(M) + 1e-12*size, arcs to 1e-9*size*|M|*cond (1e-6 where the '
               'result or the input is a half-turn arc: centre sqrt(rounding)-conditioned, DESIGN 3.3)']
TIERS = {
    'quick': {'shards': 14, 'random': 14000, 'timeout': 600, 'min_cases': 9000,
              'require_branches': ['op:translate', 'op:rotate', 'op:scale', 'op:transform', 'arc:nonuniform-scale-refused',
                                   'M:reflection', 'M:shear', 'path:closed', 'arc:transform', 'arc:rotated-ellipse', 'scale:nearly-uniform']},
    'thorough': {'shards': 14, 'random': 500000, 'timeout': 3000, 'min_cases': 250000,
                 'require_branches': ['op:translate', 'op:rotate', 'op:scale', 'op:transform',
                                      'arc:nonuniform-scale-refused', 'M:reflection', 'M:shear', 'path:closed',
                                      'arc:transform', 'arc:rotated-ellipse', 'scale:nearly-uniform']},
}
EPS = gen.EPS
TS = [0, 1, 0.5, 0.125, 0.875, 0.3, 0.7, 0.0123, 0.9876]


def is_seg(x):
    return type(x).__name__ in ('Line', 'QuadraticBezier', 'CubicBezier', 'Arc')


def seg_size(s):
    if type(s).__name__ == 'Arc':
        return max(s.radius.real, s.radius.imag, abs(s.end - s.start))
    pts = gen.spec_points(gen.seg_spec(s))
    return max(abs(p - pts[0]) for p in pts) or max(abs(pts[0]), 1e-300)


def arc_rel(a):
    lam = RA.lam_of(complex(a.start), complex(a.end), a.radius.real, a.radius.imag, a.rotation)
    return 1e-6 if lam > 1 - 1e-6 else 1e-9


def judge_seg(ctx, op, src, out, fmap, norm, cond, shift, detail):
    """pointwise comparison of one segment"""
    ctx.verdict()
    n = type(src).__name__
    if n == 'Arc' and type(out).__name__ == 'Line' and op == 'transform':
        n2 = 'Line'
    if type(out) is not type(src):
        ctx.violation('%s/%s/type' % (op, n), '%s turned a %s into a %s' % (op, n, type(out).__name__), detail)
        return False
    size = seg_size(src)
    mag = max(abs(complex(z)) for z in gen.spec_points(gen.seg_spec(src)))
    if n == 'Arc':
        tol = max(arc_rel(src), arc_rel(out)) * size * norm * cond + 256 * EPS * (norm * mag + shift) * cond
    else:
        tol = 64 * EPS * (norm * (size + mag) + shift) * cond + 1e-12 * size * norm
    for t in TS:
        a = complex(out.point(t))
        b = complex(fmap(complex(src.point(t))))
        if not (abs(a - b) <= tol):
            ctx.violation('%s/%s/points' % (op, n), '%s: result.point(t) is not the mapped point(t)' % op,
                          dict(detail, t=t, got=repr(a), want=repr(b), tol=tol, src=gen.seg_spec(src)))
            return False
    return True


def judge(ctx, op, src, out, fmap, norm, cond, shift, detail):
    if is_seg(src):
        return judge_seg(ctx, op, src, out, fmap, norm, cond, shift, detail)
    # a Path
    ctx.verdict()
    if type(out).__name__ != 'Path' or len(out) != len(src):
        ctx.violation('%s/Path/shape' % op, '%s of a path returned %s of %d segments' % (
            op, type(out).__name__, len(out) if hasattr(out, '__len__') else -1), detail)
        return False
    for i, (s, o) in enumerate(zip(src, out)):
        if not judge_seg(ctx, op + '/Path', s, o, fmap, norm, cond, shift, dict(detail, index=i)):
            return False
    n = len(src)
    for i in range(n):
        j = (i + 1) % n
        if n == 1:
            break
        if src[i].end == src[j].start and not (out[i].end == out[j].start):
            kind = 'closing-joint' if j == 0 else 'joint'
            ctx.violation('%s/Path/%s-opened' % (op, kind),
                          '%s: a joint that coincided exactly no longer coincides' % op,
                          dict(detail, index=i, a_end=repr(out[i].end), b_start=repr(out[j].start)))
            return False
    # ... and the path object itself agrees with its segments: its end points are those of its first and last
    # segment, and a closed path is still closed
    try:
        # (isclosed() asserts continuity: only continuous paths are asked)
        st, en, was_closed = out.start, out.end, src.iscontinuous() and src.isclosed()
        now_closed = was_closed and out.iscontinuous() and out.isclosed()
    except Exception as e:
        ctx.violation('%s/Path/endpoints-raise' % op, 'start/end/isclosed() of the result raised %s' % type(e).__name__, detail)
        return False
    if not (st == out[0].start and en == out[-1].end):
        ctx.violation('%s/Path/stale-endpoints' % op, '%s: result.start/.end differ from the first/last segment\'s end points' % op,
                      dict(detail, start=repr(st), end=repr(en), seg_start=repr(out[0].start), seg_end=repr(out[-1].end)))
        return False
    if was_closed:
        ctx.branch('closed-path')
        if not now_closed:
            ctx.violation('%s/Path/closed-opened' % op, '%s: a closed path is no longer closed' % op, detail)
            return False
    return True


def _num(x):
    return isinstance(x, (int, float, complex, np.floating, np.integer, np.complexfloating))


def post_translate(call):
    ctx = core.CTX
    c, z0 = call.a.get('curve'), call.a.get('z0')
    if not _num(z0):
        return False
    z0 = complex(z0)
    ctx.branch('op:translate')
    judge(ctx, 'translate', c, call.ret, lambda z: z + z0, 1.0, 1.0, abs(z0), {'z0': repr(z0)})
    return True


def pre_rotate(call):
    c, origin = call.a.get('curve'), call.a.get('origin')
    if origin is None:
        try:
            return complex(c.center) if type(c).__name__ == 'Arc' else complex(c.point(0.5))
        except Exception:
            return None
    return complex(origin)


def post_rotate(call):
    ctx = core.CTX
    c, degs = call.a.get('curve'), call.a.get('degs')
    if not _num(degs) or call.pre is None:
        return False
    o = call.pre
    w = complex(math.cos(math.radians(degs)), math.sin(math.radians(degs)))
    ctx.branch('op:rotate')
    judge(ctx, 'rotate', c, call.ret, lambda z: w * (z - o) + o, 1.0, 1.0, 2 * abs(o),
          {'degs': float(degs), 'origin': repr(call.a.get('origin'))})
    return True


def post_scale(call):
    ctx = core.CTX
    c, sx, sy, o = call.a.get('curve'), call.a.get('sx'), call.a.get('sy'), call.a.get('origin', 0j)
    if not _num(sx) or isinstance(sx, complex) or (sy is not None and not _num(sy)) or not _num(o):
        return False
    o = complex(o)
    sxx, syy = float(sx), float(sx if sy is None else sy)
    if sxx == 0 or syy == 0:
        return False
    ctx.branch('op:scale')
    norm = max(abs(sxx), abs(syy))
    cond = norm / min(abs(sxx), abs(syy))
    judge(ctx, 'scale', c, call.ret,
          lambda z: complex(sxx * (z.real - o.real) + o.real, syy * (z.imag - o.imag) + o.imag),
          norm, cond, (1 + norm) * abs(o), {'sx': sxx, 'sy': None if sy is None else syy, 'origin': repr(o)})
    return True


def exc_scale(call):
    ctx = core.CTX
    c, sx, sy = call.a.get('curve'), call.a.get('sx'), call.a.get('sy')
    if type(c).__name__ == 'Arc' and sy is not None and sy != sx:
        ctx.verdict()
        ctx.branch('arc:nonuniform-scale-refused')      # documented refusal
        return True
    if type(c).__name__ == 'Path' and sy is not None and sy != sx and any(type(s).__name__ == 'Arc' for s in c):
        return False
    if not (is_seg(c) or type(c).__name__ == 'Path'):
        return False
    ctx.verdict()
    ctx.violation('scale/raises/%s' % type(c).__name__, 'scale raised %s' % type(call.exc).__name__,
                  {'exc': str(call.exc)[:100]})
    return True


def post_transform(call):
    ctx = core.CTX
    c, tf = call.a.get('curve'), call.a.get('tf')
    try:
        M = np.asarray(tf, dtype=float)
    except (TypeError, ValueError):
        return False
    if M.shape != (3, 3) or not np.all(np.isfinite(M)):
        return False
    A = M[:2, :2]
    det = A[0, 0] * A[1, 1] - A[0, 1] * A[1, 0]
    if det == 0:
        return False
    sv = np.linalg.svd(A, compute_uv=False)
    norm, cond = float(sv[0]), float(sv[0] / sv[1])
    if cond > 1e6:
        return False
    ctx.branch('op:transform')
    if type(c).__name__ == 'Arc':
        ctx.branch('arc:transform')
        if c.rotation % 180 != 0 and c.radius.real != c.radius.imag:
            ctx.branch('arc:rotated-ellipse')

    def fmap(z):
        return complex(A[0, 0] * z.real + A[0, 1] * z.imag + M[0, 2], A[1, 0] * z.real + A[1, 1] * z.imag + M[1, 2])
    judge(ctx, 'transform', c, call.ret, fmap, norm, cond, abs(complex(M[0, 2], M[1, 2])),
          {'M': [[float(x) for x in row] for row in M]})
    return True


def exc_any(op):
    def on_exc(call):
        ctx = core.CTX
        c = call.a.get('curve')
        if not (is_seg(c) or type(c).__name__ == 'Path'):
            return False
        if op == 'transform':
            try:
                M = np.asarray(call.a.get('tf'), dtype=float)
                if M.shape != (3, 3) or abs(np.linalg.det(M[:2, :2])) == 0:
                    return False
            except Exception:
                return False
        ctx.verdict()
        ctx.violation('%s/raises/%s/%s' % (op, type(call.exc).__name__, type(c).__name__),
                      '%s raised %s: %s' % (op, type(call.exc).__name__, str(call.exc)[:80]))
        return True
    return on_exc


def post_together(call):
    ctx = core.CTX
    p, out = call.a.get('path'), call.ret
    ctx.verdict()
    n = len(p)
    if len(out) != n:
        ctx.violation('together/count', 'transform_segments_together changed the number of segments')
        return True
    for i in range(n):
        j = (i + 1) % n
        if n > 1 and p[i].end == p[j].start and not (out[i].end == out[j].start):
            ctx.violation('together/%s-opened' % ('closing-joint' if j == 0 else 'joint'),
                          'a joint that coincided exactly no longer coincides after the transformation',
                          {'index': i})
            break
    return True


def install(ctx):
    import svgpathtools.path as P
    monitor.install(P, 'translate', post=post_translate, on_exc=exc_any('translate'))
    monitor.install(P, 'rotate', post=post_rotate, pre=pre_rotate, on_exc=exc_any('rotate'))
    monitor.install(P, 'scale', post=post_scale, on_exc=exc_scale)
    monitor.install(P, 'transform', post=post_transform, on_exc=exc_any('transform'))
    monitor.install(P, 'transform_segments_together', post=post_together)


# --------------------------------------------------------------------------
def _matrix(rng):
    def rot(a):
        return np.array([[math.cos(a), -math.sin(a), 0], [math.sin(a), math.cos(a), 0], [0, 0, 1.0]])

    def sc(x, y):
        return np.diag([x, y, 1.0])

    def tr(x, y):
        m = np.eye(3)
        m[0, 2], m[1, 2] = x, y
        return m

    def shear(k, axis):
        m = np.eye(3)
        m[(0, 1) if axis == 0 else (1, 0)] = k
        return m
    kinds = []
    M = np.eye(3)
    for _ in range(rng.choice([1, 1, 2, 3])):
        k = rng.choice(['translation', 'rotation', 'rot90', 'uniform', 'nonuniform', 'negative', 'reflection',
                        'diagonal-reflection', 'shear'])
        kinds.append(k)
        if k == 'translation':
            F = tr(rng.uniform(-50, 50), rng.uniform(-50, 50))
        elif k == 'rotation':
            F = rot(rng.uniform(-7, 7))
        elif k == 'rot90':
            F = np.round(rot(rng.randint(0, 3) * math.pi / 2))
        elif k == 'uniform':
            s = rng.choice([0.5, 2.0, rng.uniform(0.1, 10)])
            F = sc(s, s)
        elif k == 'nonuniform':
            F = sc(rng.uniform(0.2, 5), rng.uniform(0.2, 5))
        elif k == 'negative':
            F = sc(-rng.uniform(0.2, 5), -rng.uniform(0.2, 5))
        elif k == 'reflection':
            F = rng.choice([sc(1, -1), sc(-1, 1), sc(rng.uniform(.5, 2), -rng.uniform(.5, 2))])
        elif k == 'diagonal-reflection':
            F = np.array([[0, 1.0, 0], [1.0, 0, 0], [0, 0, 1]])
        else:
            F = shear(rng.uniform(-2, 2), rng.randint(0, 1))
        M = M.dot(F)
    return M, kinds


def cases(ctx):
    rng = ctx.rng
    n = TIERS[ctx.tier]['random'] // ctx.nshards
    for i in range(n):
        cls = []
        if rng.random() < 0.55:
            cc = rng.choice(['rand', 'int', 'half'])
            kind = rng.choice('LQCAA')
            s0 = gen.cpoint(rng, cc)
            if kind == 'A':
                e = gen.distinct_point(rng, cc, [s0])
                circ = rng.random() < 0.4
                r = abs(e - s0) * rng.uniform(0.3, 3)
                spec = ['A', [s0.real, s0.imag], [r, r if circ else r * rng.uniform(0.2, 5)],
                        rng.choice([0, 0.0, 90, 45.0, rng.uniform(-360, 360)]), rng.random() < .5, rng.random() < .5,
                        [e.real, e.imag]]
            else:
                spec = gen.rand_seg_spec(rng, kind, s0, cc)
            if spec[0] == 'L' and spec[1] == spec[2]:
                continue
            obj = {'kind': 'seg', 'seg': spec}
            cls.append('seg:' + kind)
        else:
            kinds = [rng.choice('LQCA') for _ in range(rng.randint(2, 6))]
            m = rng.random()
            if m < 0.25:
                kinds = ['C'] * rng.randint(2, 5)
            elif m < 0.4:
                kinds = ['A'] * rng.randint(2, 3)
            clo = rng.choice(['open', 'line', 'curve', 'curve'])
            specs = gen.rand_path_specs(rng, kinds, rng.choice(['rand', 'int', 'half']), clo)
            if any(s[0] == 'A' and s[1] == s[-1] for s in specs) or any(s[0] == 'L' and s[1] == s[2] for s in specs):
                continue
            obj = {'kind': 'path', 'segs': specs}
            cls += ['path', 'path:' + clo]
        op = rng.choice(['translate', 'rotate', 'rotate-origin', 'scale', 'scale-xy', 'scale-origin', 'transform',
                         'transform', 'transform'])
        if op == 'translate':
            arg = [rng.uniform(-100, 100), rng.uniform(-100, 100)]
        elif op.startswith('rotate'):
            arg = {'degs': rng.choice([90, 180, 45, -30.5, rng.uniform(-720, 720)]),
                   'origin': [rng.uniform(-20, 20), rng.uniform(-20, 20)] if op == 'rotate-origin' else None}
        elif op.startswith('scale'):
            arg = {'sx': rng.choice([2, 0.5, -1, -0.3, rng.uniform(0.1, 10)]),
                   'sy': rng.choice([0.5, -1, 3, rng.uniform(0.1, 10)]) if op == 'scale-xy' else None,
                   'origin': [rng.uniform(-20, 20), rng.uniform(-20, 20)] if op != 'scale' else None}
            if rng.random() < 0.2 and arg['sy'] is not None:
                arg['sy'] = arg['sx']
            elif rng.random() < 0.2 and arg['sy'] is not None:
                # two factors that differ, but only slightly: still a non-uniform scaling
                arg['sy'] = arg['sx'] * (1 + rng.choice([-1, 1]) * 10.0 ** rng.uniform(-9, -5.1))
                cls.append('scale:nearly-uniform')
        else:
            M, mk = _matrix(rng)
            arg = {'M': [[float(x) for x in row] for row in M]}
            cls += ['M:' + k for k in mk]
        obj.update({'op': op, 'arg': arg, 'cls': cls + ['op:' + op]})
        yield obj


def run_case(ctx, case):
    c = gen.seg(case['seg']) if case['kind'] == 'seg' else gen.path(case['segs'])
    op, arg = case['op'], case['arg']
    for k in case['cls']:
        if k in ('M:reflection', 'M:shear'):
            ctx.branch(k)
        if k in ('path:line', 'path:curve'):
            ctx.branch('path:closed')
        if k == 'scale:nearly-uniform':
            ctx.branch(k)
    if op == 'translate':
        c.translated(complex(*arg))
    elif op.startswith('rotate'):
        if arg['origin'] is None:
            c.rotated(arg['degs'])
        else:
            c.rotated(arg['degs'], origin=complex(*arg['origin']))
    elif op.startswith('scale'):
        kw = {}
        if arg['origin'] is not None:
            kw['origin'] = complex(*arg['origin'])
        try:
            if arg['sy'] is None:
                c.scaled(arg['sx'], **kw)
            else:
                c.scaled(arg['sx'], arg['sy'], **kw)
        except Exception:
            pass          # judged by the exception observer (documented refusal for arcs)
    else:
        import svgpathtools.path as P
        M = np.array(arg['M'])
        try:
            P.transform(c, M)
        except Exception:
            pass          # judged by the exception observer


def crash_key(ctx, case, e, site):
    return 'crash/%s@%s/%s' % (type(e).__name__, site, case['op'])


REGISTER = True
TECHNIQUE = 'runtime monitors on translate/rotate/scale/transform/transform_segments_together; oracle = pointwise commutation with the affine map at 9 parameters and exact joint preservation; matrix-class workload'
LEVEL_TEXT = ('Every transformation performed during the workload (including the per-segment calls made for paths) is judged: result.point(t) must be '
              'the affine image of point(t) at 9 parameters for Beziers and arcs alike, non-uniform scaling of an arc must be refused, and every '
              'joint of a path that coincided exactly (including the closing joint) must still coincide exactly. Matrices: translations, '
              'rotations, uniform/non-uniform/negative scales, reflections, shears and products of up to three.')
LEVEL_NOTE = 'The input object\'s own point() is the reference; tolerances per ASSUMPTIONS; matrices with cond > 1e6 are not judged.'
