"""C18 - Paths written to SVG (wsvg, Document) are read back unchanged, with attributes.

Monitors: disvg (wsvg and paths2Drawing delegate), Document.add_path, Document.save,
          SaxDocument.save.  The Path.d post-condition of C01 is installed as well, so a
          failure is localised (serialiser vs reader).
Oracle  : after the file is written it is read back with the real readers (svg2paths2,
          Document.paths, SaxDocument; monitors suspended): same number of paths in the same
          order, each equal to the original under C01's absolute-form equivalence, every
          supplied per-path / svg attribute present with an unchanged string value.
          Document histories (load -> add_path/add_group -> paths() -> save -> reload) are
          checked against a list model of (d, attributes, ancestor transform).
"""
import io
import os
import random

import numpy as np

from .. import core, gen, monitor
from . import c01

PROP = 'C18'
CONFIGS = ['scipy']
DECIDING = ['paths2svg.disvg', 'Document.add_path', 'Document.save']
ANCHORED = ['disvg', 'wsvg', 'Document.add_path', 'Document.add_group', 'Document.save', 'Document.paths',
            'generate_dom', 'SaxDocument.save', 'svg2paths']
RULE = ('cases = (a) a list of 1-6 paths (all segment mixes, several subpaths) with per-path attribute dictionaries (stroke, fill, '
        'stroke-width, id, class, style, opacity, data-*; values with spaces, quotes, <, &, non-ASCII) and svg attributes, written '
        'with wsvg to file names with spaces / non-ASCII / not-yet-existing directories and read back by three readers; (b) Document '
        'histories load -> add_group/add_path (root, nested names, element) -> paths() -> save -> reload; distinct by spec; non-trivial '
        'if a read-back comparison was made')
RULE += "; the same attribute dictionaries passed to two consecutive wsvg calls, add_path with a dictionary carrying another path's d, SaxDocument load -> save -> reload"
ASSUMPTIONS = ['path equality is C01\'s absolute-form equivalence (== except radii of auto-enlarged arcs, 1e-12)',
               'zero-length Lines and arcs whose squares leave the double range are not generated (C01)']
TIERS = {
    'quick': {'shards': 14, 'random': 4200, 'timeout': 900, 'min_cases': 2500,
              'require_branches': ['reader:svg2paths2', 'reader:Document', 'reader:SaxDocument', 'attr:special-characters',
                                   'attr:non-ascii', 'file:nested-new-directory', 'history:add_path-nested-group',
                                   'history:reload', 'svg-attributes', 'wsvg:same-dictionaries-twice', 'history:add_path-attribs-with-d', 'history:sax-save-reload-with-transforms']},
    'thorough': {'shards': 14, 'random': 300000, 'timeout': 3400, 'min_cases': 100000,
                 'require_branches': ['reader:svg2paths2', 'reader:Document', 'reader:SaxDocument',
                                      'attr:special-characters', 'attr:non-ascii', 'file:nested-new-directory',
                                      'history:add_path-nested-group', 'history:reload', 'svg-attributes', 'wsvg:same-dictionaries-twice', 'history:add_path-attribs-with-d', 'history:sax-save-reload-with-transforms']},
}
CASE_TIMEOUT = 60
SVGNS = 'http://www.w3.org/2000/svg'


def same_path(orig, back):
    """C01's absolute-form equivalence; None or reason"""
    if len(orig) == 0 and len(back) == 0:
        return None
    r = c01.compare(orig, back, rel=False, self_closed=False)
    return None if r is None else '%s: %s' % r


def _as_path(p):
    import svgpathtools.path as P
    if isinstance(p, P.Path):
        return p
    if P.is_path_segment(p):
        return P.Path(p)
    from svgpathtools import parse_path
    return parse_path(p)


def _attr_class(attrs):
    vals = ' '.join(str(v) for d in (attrs or []) for v in d.values())
    out = []
    if any(c in vals for c in '<>&"\''):
        out.append('special-characters')
    if any(ord(c) > 127 for c in vals):
        out.append('non-ascii')
    return out


INTENDED = {}


def post_disvg(call):
    ctx = core.CTX
    a = call.a
    if a.get('paths2Drawing') or a.get('nodes') or a.get('text') or a.get('timestamp'):
        return False
    fn, paths = a.get('filename'), a.get('paths')
    if fn is None or not paths:
        return False
    import svgpathtools.path as P
    if isinstance(paths, P.Path) or P.is_path_segment(paths):
        paths = [paths]
    origs = [_as_path(p) for p in paths]
    for p in origs:
        for s in p:
            if type(s).__name__ == 'Line' and s.start == s.end:
                ctx.skip('zero-length Line in a written path')
                return False
    attributes, svg_attributes = a.get('attributes'), a.get('svg_attributes')
    # what the caller supplied: when the driver passes the same dictionary objects to consecutive wsvg calls it
    # registers their contents as of the first call (a writer that consumes entries of the caller's dictionary
    # silently drops them from the second file)
    attributes = INTENDED.get(id(attributes), attributes)
    svg_attributes = INTENDED.get(id(svg_attributes), svg_attributes)
    ctx.verdict()
    tags = _attr_class(attributes)
    fkey = ('/' + '+'.join(tags)) if tags else ''
    if not os.path.isfile(fn):
        ctx.violation('wsvg/file-not-written', 'wsvg returned but the file does not exist', {'filename': fn})
        return True
    from svgpathtools import svg2paths2, Document, SaxDocument
    readers = []
    try:
        ps, ats, sv = svg2paths2(fn)
        readers.append(('svg2paths2', ps, ats, sv))
    except Exception as e:   # noqa
        ctx.violation('readback/svg2paths2/raises/%s%s' % (type(e).__name__, fkey),
                      'svg2paths2 cannot read the file wsvg wrote: %s' % str(e)[:100], {'filename': fn})
    try:
        doc = Document(fn)
        dps = doc.paths()
        readers.append(('Document', dps, [dict(p.element.attrib) for p in dps], dict(doc.root.attrib)))
    except Exception as e:   # noqa
        ctx.violation('readback/Document/raises/%s%s' % (type(e).__name__, fkey),
                      'Document cannot read the file wsvg wrote: %s' % str(e)[:100], {'filename': fn})
    try:
        sd = SaxDocument(fn)
        sps = sd.flatten_all_paths()
        readers.append(('SaxDocument', sps, [dict((k, v) for k, v in t.items() if isinstance(v, str)) for t in sd.tree],
                        dict(sd.root_values)))
    except Exception as e:   # noqa
        ctx.violation('readback/SaxDocument/raises/%s%s' % (type(e).__name__, fkey),
                      'SaxDocument cannot read the file wsvg wrote: %s' % str(e)[:100], {'filename': fn})
    for name, ps, ats, sv in readers:
        ctx.branch('reader:' + name)
        if len(ps) != len(origs):
            ctx.violation('readback/%s/count' % name, '%s read %d paths, %d were written' % (name, len(ps), len(origs)))
            continue
        bad = False
        for i, (o, b) in enumerate(zip(origs, ps)):
            why = same_path(o, b)
            if why is not None:
                ctx.violation('readback/%s/path-differs' % name, '%s: path %d read back differs from the one written: %s' % (name, i, why),
                              {'written': gen.path_spec(o)})
                bad = True
                break
        if bad:
            continue
        if attributes:
            for i, (want, got) in enumerate(zip(attributes, ats)):
                for k, v in want.items():
                    if k == 'd':
                        continue
                    if name == 'SaxDocument' and (k == 'style' or (k + ':') in str(want.get('style', '')).replace(' ', '')):
                        continue          # SaxDocument explodes style into its properties, which override the attributes
                    if got.get(k) != str(v):
                        ctx.violation('readback/%s/attribute%s' % (name, fkey),
                                      '%s: attribute %r of path %d is %r, written %r' % (name, k, i, got.get(k), str(v)))
                        bad = True
                        break
                if bad:
                    break
        if bad:
            continue
        if svg_attributes:
            ctx.branch('svg-attributes')
            for k, v in svg_attributes.items():
                if k in ('debug', 'profile', 'filename', 'size'):
                    continue
                if sv.get(k) != str(v):
                    ctx.violation('readback/%s/svg-attribute' % name,
                                  '%s: svg attribute %r is %r, written %r' % (name, k, sv.get(k), str(v)))
                    break
    return True


def exc_disvg(call):
    ctx = core.CTX
    a = call.a
    if a.get('filename') is None or not a.get('paths'):
        return False
    ctx.verdict()
    tags = _attr_class(a.get('attributes'))
    fn = str(a.get('filename'))
    if any(ord(c) > 127 for c in fn):
        tags.append('non-ascii-filename')
    ctx.violation('wsvg/raises/%s%s' % (type(call.exc).__name__, ('/' + '+'.join(tags)) if tags else ''),
                  'wsvg raised %s: %s' % (type(call.exc).__name__, str(call.exc)[:100]), {'filename': fn})
    return True


def pre_add_path(call):
    g = call.a.get('group')
    if isinstance(g, (list, tuple)) and all(isinstance(x, str) for x in g):
        return list(g)            # (the library consumes the list it is given)
    return None


def post_add_path(call):
    """Paths added to a Document are visible to that Document's own queries"""
    ctx = core.CTX
    doc = call.args[0]
    elem = call.ret
    path = call.a.get('path')
    attribs = call.a.get('attribs') or {}
    for k, v in attribs.items():
        if k != 'd' and elem.attrib.get(k) != v:
            ctx.verdict()
            ctx.violation('add_path/attribute-lost', 'an attribute passed to add_path is not on the created element', {'key': k})
            return True
    if call.pre is not None:
        parent0 = {c: p for p in doc.root.iter() for c in p}
        ids = []
        e = elem
        while e in parent0:
            e = parent0[e]
            if e is not doc.root:
                ids.append(e.get('id'))
        ctx.verdict()
        if ids[::-1] != call.pre:
            ctx.violation('add_path/wrong-group', 'add_path(group=[names]) did not put the path into that nested group',
                          {'wanted': call.pre, 'got': ids[::-1]})
            return True
    try:
        orig = _as_path(path)
    except Exception:
        return False
    ctx.verdict()
    try:
        found = [p for p in doc.paths() if p.element is elem]
    except Exception as e:   # noqa
        ctx.violation('add_path/paths-raises/%s' % type(e).__name__, 'Document.paths() raised after add_path')
        return True
    if len(found) != 1:
        where = 'root' if call.a.get('group') is None else 'group'
        ctx.violation('add_path/invisible/%s' % where,
                      'a path added with add_path is not among the Document\'s own paths()', {'tag': elem.tag})
        return True
    # geometry: the added path mapped by the transforms of the groups it was put into
    import xml.etree.ElementTree as ET
    from ..ref import flatten as RF
    parent = {c: p for p in doc.root.iter() for c in p}
    chain = [elem]
    while chain[-1] in parent:
        chain.append(parent[chain[-1]])
    M = np.identity(3)
    for e in reversed(chain):
        try:
            M = M.dot(RF.parse_transform_list(e.get('transform')))
        except RF.Unsupported:
            return True
    got = found[0]
    if len(got) != len(orig):
        ctx.violation('add_path/segments', 'the added path has %d segments in paths(), %d were added' % (len(got), len(orig)))
        return True
    for s, o in zip(got, orig):
        if type(s).__name__ == 'Arc' or type(o).__name__ == 'Arc':
            pts_got = [complex(s.start), complex(s.end)]
            pts_want = [complex(o.start), complex(o.end)]
        else:
            pts_got = [complex(z) for z in s.bpoints()]
            pts_want = [complex(z) for z in o.bpoints()]
        for g, w in zip(pts_got, pts_want):
            w2 = complex(M[0, 0] * w.real + M[0, 1] * w.imag + M[0, 2], M[1, 0] * w.real + M[1, 1] * w.imag + M[1, 2])
            if abs(g - w2) > 1e-9 * (1 + abs(w2)):
                ctx.violation('add_path/geometry', 'the added path appears in paths() at the wrong place (group transforms)',
                              {'got': repr(g), 'want': repr(w2)})
                return True
    return True


def post_doc_save(call):
    ctx = core.CTX
    doc = call.args[0]
    fn = call.a.get('filepath')
    ctx.verdict()
    from svgpathtools import Document
    with monitor.suspended():
        try:
            before = doc.paths()
            re = Document(fn)
            after = re.paths()
        except Exception as e:   # noqa
            ctx.violation('Document.save/reload-raises/%s' % type(e).__name__,
                          'a saved Document cannot be loaded again: %s' % str(e)[:100])
            return True
    ctx.branch('history:reload')
    from svgpathtools import svg2paths, SaxDocument
    with monitor.suspended():
        for rname, reader in (('svg2paths', lambda: svg2paths(fn)[0]), ('SaxDocument', lambda: SaxDocument(fn).flatten_all_paths())):
            try:
                ps = reader()
            except Exception as e:   # noqa
                ctx.violation('Document.save/%s-raises/%s' % (rname, type(e).__name__),
                              '%s cannot read a file saved by Document: %s' % (rname, str(e)[:80]))
                return True
            if len(ps) != len(before):
                ctx.violation('Document.save/%s-count' % rname,
                              '%s finds %d paths in a file saved by a Document holding %d' % (rname, len(ps), len(before)))
                return True
            if rname == 'SaxDocument':
                # Document.paths() is not in document order (group stack); compare as multisets
                def close(o, b):
                    return len(o) == len(b) and all(
                        abs(complex(x.start) - complex(y.start)) + abs(complex(x.end) - complex(y.end))
                        <= 1e-9 * (1 + abs(complex(x.start)) + abs(complex(x.end))) for x, y in zip(o, b))
                rest = list(ps)
                for i, o in enumerate(before):
                    hit = next((b for b in rest if close(o, b)), None)
                    if hit is None:
                        ctx.violation('Document.save/SaxDocument-path-differs',
                                      'path %d of the Document is not among the paths SaxDocument reads from the saved file' % i)
                        return True
                    rest.remove(hit)
    if len(before) != len(after):
        ctx.violation('Document.save/reload-count', 'the reloaded Document has %d paths, the saved one had %d' % (len(after), len(before)))
        return True
    for i, (o, b) in enumerate(zip(before, after)):
        why = same_path(o, b)
        if why is not None:
            # transformed paths go through float matrices twice: allow rounding
            ok = len(o) == len(b) and all(
                type(x) is type(y) and abs(complex(x.start) - complex(y.start)) + abs(complex(x.end) - complex(y.end))
                <= 1e-9 * (1 + abs(complex(x.start)) + abs(complex(x.end))) for x, y in zip(o, b))
            if not ok:
                ctx.violation('Document.save/reload-path-differs', 'path %d of the reloaded Document differs: %s' % (i, why))
                return True
        for k, v in o.element.attrib.items():
            if b.element.attrib.get(k) != v:
                ctx.violation('Document.save/reload-attribute', 'attribute %r of path %d changed across save/reload' % (k, i))
                return True
    return True


def install(ctx):
    import svgpathtools.paths2svg as S
    import svgpathtools.document as D
    import svgpathtools.path as P
    monitor.install(S, 'disvg', post=post_disvg, on_exc=exc_disvg)
    monitor.install(D.Document, 'add_path', post=post_add_path, pre=pre_add_path)
    monitor.install(D.Document, 'save', post=post_doc_save)
    monitor.install(P.Path, 'd', post=c01.post_d)


# --------------------------------------------------------------------------
VALUES = ['red', '#00ff00', 'none', '2', '0.5', 'a b c', 'x&y', 'a<b', 'say "hi"', "it's", 'café €', 'fill:none;stroke:#000',
          'rgb(1, 2, 3)', '  padded  ', 'line1 line2']
KEYS = ['stroke', 'fill', 'stroke-width', 'id', 'class', 'style', 'opacity', 'data-name', 'data-x']


def _path_specs(rng):
    k = rng.random()
    cc = rng.choice(['int', 'half', 'rand', 'dyadic'])
    if k < 0.6:
        kinds = [rng.choice('LQCA') for _ in range(rng.randint(1, 6))]
        return gen.rand_path_specs(rng, kinds, cc, rng.choice(['open', 'line', 'curve']) if len(kinds) > 1 else 'open')
    specs = []
    for _ in range(rng.randint(2, 3)):
        kinds = [rng.choice('LQCA') for _ in range(rng.randint(1, 3))]
        specs += gen.rand_path_specs(rng, kinds, cc, 'open')
    return specs


def _ok(specs):
    return not any(s[0] == 'L' and s[1] == s[2] for s in specs) and not any(s[0] == 'A' and s[1] == s[-1] for s in specs)


def cases(ctx):
    rng = ctx.rng
    n = TIERS[ctx.tier]['random'] // ctx.nshards
    for i in range(n):
        if rng.random() < 0.6:
            paths = []
            for _ in range(rng.randint(1, 6)):
                sp = _path_specs(rng)
                if _ok(sp):
                    paths.append(sp)
            if not paths:
                continue
            attrs = None
            if rng.random() < 0.7:
                attrs = []
                for j in range(len(paths)):
                    d = {}
                    for k in rng.sample(KEYS, rng.randint(1, 5)):
                        v = rng.choice(VALUES)
                        if k == 'id':
                            v = 'p%d_%d' % (i, j)
                        d[k] = v
                    attrs.append(d)
            svg_attrs = None
            if rng.random() < 0.4:
                svg_attrs = {'width': rng.choice(['200px', '100', '5cm']), 'height': rng.choice(['100px', '80']),
                             'viewBox': '0 0 %d %d' % (rng.randint(10, 500), rng.randint(10, 500))}
                if rng.random() < 0.5:
                    svg_attrs['id'] = 'root%d' % i
                if rng.random() < 0.3:
                    svg_attrs['data-note'] = rng.choice(VALUES)
            fname = rng.choice(['out.svg', 'with space.svg', 'café.svg', 'sub/dir/new/out.svg', 'a b/c d.svg'])
            yield {'kind': 'wsvg', 'paths': paths, 'attrs': attrs, 'svg_attrs': svg_attrs, 'fname': fname,
                   'cls': ['wsvg', 'file:' + ('nested' if '/' in fname else 'plain')]}
        else:
            ops = []
            for _ in range(rng.randint(1, 6)):
                k = rng.random()
                sp = _path_specs(rng)
                if not _ok(sp):
                    continue
                if k < 0.35:
                    ops.append(['add_path', sp, None, rng.choice([
                        None, {'stroke': 'red', 'id': 'h%d' % len(ops)},
                        # an attribute dictionary as svg2paths returns it: it carries the 'd' of ANOTHER path
                        {'d': 'M 1,2 L 30,40 L 5,60', 'fill': 'none', 'id': 'h%d' % len(ops)}])])
                elif k < 0.6:
                    ops.append(['add_path', sp, [rng.choice(['A', 'B']), rng.choice(['x', 'y'])][:rng.randint(1, 2)], None])
                elif k < 0.8:
                    ops.append(['add_group', {'id': rng.choice(['G1', 'G2']), 'transform': rng.choice(
                        ['translate(10,20)', 'scale(2)', 'rotate(30)', 'matrix(1,0.5,-0.5,1,3,4)'])}, sp])
                else:
                    ops.append(['paths'])
            if not ops:
                continue
            yield {'kind': 'doc', 'start': rng.choice(['empty', 'wsvg-file']), 'init': _path_specs(rng), 'ops': ops,
                   'cls': ['document-history']}


def run_case(ctx, case):
    from svgpathtools import wsvg, Document, SaxDocument
    work = os.path.join(os.environ.get('VT_WORK', '/tmp'), 'c18-%d-%d' % (os.getpid(), ctx.cases))
    os.makedirs(work, exist_ok=True)
    try:
        if case['kind'] == 'wsvg':
            paths = [gen.path(sp) for sp in case['paths']]
            fn = os.path.join(work, case['fname'])
            for t in _attr_class(case['attrs']):
                ctx.branch('attr:' + t)
            if '/' in case['fname']:
                ctx.branch('file:nested-new-directory')
            import copy
            attrs, svg_attrs = case['attrs'], case['svg_attrs']
            INTENDED.clear()
            for o in (attrs, svg_attrs):
                if o is not None:
                    INTENDED[id(o)] = copy.deepcopy(o)
            try:
                wsvg(paths, filename=fn, attributes=attrs, svg_attributes=svg_attrs)
                # the same dictionaries again, as a caller writing several files with one set of settings does
                ctx.branch('wsvg:same-dictionaries-twice')
                wsvg(paths, filename=os.path.join(work, 'second.svg'), attributes=attrs, svg_attributes=svg_attrs)
            except Exception:
                pass              # judged by the exception observer
            finally:
                INTENDED.clear()
            return
        # Document history
        if case['start'] == 'empty' or not _ok(case['init']):
            doc = Document(None)
        else:
            fn0 = os.path.join(work, 'start.svg')
            wsvg([gen.path(case['init'])], filename=fn0)
            doc = Document(fn0)
        last_group = None
        for op in case['ops']:
            if op[0] == 'add_path':
                p = gen.path(op[1])
                if op[2]:
                    ctx.branch('history:add_path-nested-group')
                if op[3] and 'd' in op[3]:
                    ctx.branch('history:add_path-attribs-with-d')
                doc.add_path(p, attribs=op[3], group=list(op[2]) if op[2] else None)
            elif op[0] == 'add_group':
                g = doc.add_group(dict(op[1]))
                doc.add_path(gen.path(op[2]), group=g)
            else:
                doc.paths()
        out = os.path.join(work, 'saved.svg')
        doc.save(out)
        # the other writer: a file read by SaxDocument and saved again holds the same (flattened) paths
        try:
            sd = SaxDocument(out)
            before = sd.flatten_all_paths()
            out2 = os.path.join(work, 'resaved.svg')
            sd.save(out2)
            after = SaxDocument(out2).flatten_all_paths()
        except Exception as e:   # noqa
            ctx.verdict()
            ctx.violation('SaxDocument.save/raises/%s' % type(e).__name__, 'SaxDocument load -> save -> reload raised: %s' % str(e)[:100])
            return
        ctx.verdict()
        ctx.branch('history:sax-save-reload')
        if any(e.get('transform') for e in doc.root.iter()):
            ctx.branch('history:sax-save-reload-with-transforms')
        if len(before) != len(after):
            ctx.violation('SaxDocument.save/count', 'SaxDocument load -> save -> reload: %d paths became %d' % (len(before), len(after)))
            return
        for i, (a, b) in enumerate(zip(before, after)):
            if len(a) != len(b) or any(type(x) is not type(y) for x, y in zip(a, b)):
                ctx.violation('SaxDocument.save/segments', 'SaxDocument load -> save -> reload changed the segments of path %d' % i)
                return
            for x, y in zip(a, b):
                for u, v in ((x.start, y.start), (x.end, y.end)) + (tuple(zip(x.bpoints(), y.bpoints())) if hasattr(x, 'bpoints') and type(x).__name__ != 'Arc' else ()):
                    if abs(complex(u) - complex(v)) > 1e-9 * (1 + abs(complex(u))):
                        ctx.violation('SaxDocument.save/geometry',
                                      'SaxDocument load -> save -> reload moved a point of path %d by %.3g' % (i, abs(complex(u) - complex(v))),
                                      {'before': repr(u), 'after': repr(v)})
                        return
    finally:
        import shutil
        shutil.rmtree(work, ignore_errors=True)


def crash_key(ctx, case, e, site):
    return 'crash/%s@%s/%s' % (type(e).__name__, site, case['kind'])


REGISTER = True
TECHNIQUE = 'runtime monitors on disvg/wsvg, Document.add_path and Document.save whose oracles read the written file back with all three readers (and C01\'s Path.d monitor to localise failures); Document histories against a list model'
LEVEL_TEXT = ('Every wsvg call of the workload is followed by reading the file back with svg2paths2, Document and SaxDocument: same number and order of '
              'paths, each equal to the written one under the d-string round-trip guarantee, every supplied per-path and svg attribute returned with an '
              'unchanged string value (values with spaces, quotes, <, &, non-ASCII; file names with spaces, non-ASCII, new directories); every '
              'Document.add_path must make the path visible to paths() at the position its group transforms dictate; every Document.save must reload to the same paths and attributes.')
LEVEL_NOTE = 'Readers are the library\'s own (their geometry is C17\'s subject); svgwrite is trusted to escape XML; SaxDocument explodes style attributes by design.'
