"""C07 - ilength inverts length on [0, L], is monotone, total and terminates.

Monitors: post-condition + exception observer on inv_arclength (all five ilength methods
          delegate to it; the per-segment call made for a Path is judged as well), with a
          snapshot of the number of length() evaluations made during the call (= bisection
          steps: "terminates" is restated as bounded progress).
Oracle  : reference arc length from 0 to the returned parameter (vt/ref/quad.py bracket).
"""
import math

import numpy as np

from .. import core, gen, monitor
from ..ref import quad as Q

PROP = 'C07'
CONFIGS = ['scipy']
DECIDING = ['path.inv_arclength', 'Arc.ilength', 'CubicBezier.ilength', 'Path.ilength']
ANCHORED = ['inv_arclength', '.ilength']
RULE = ('cases = one curve (each segment type, or a path of 2-5 mixed segments) at coordinate scale 1e-3..1e6 with a sorted grid '
        'of arc lengths s in [0, L] (0, L, segment boundaries of a path and their ulp-neighbours, 7-point grid, random) plus out-of-'
        'range s; every inv_arclength / X.ilength call is judged: result in [0,1], length(0,t) equals s within max(2 s_tol, 256 eps L) in the library\'s own measure and the reference arc length brackets s within max(s_tol, 1e-9 L), '
        'ValueError exactly for s outside [0, L], bounded number of length evaluations; monotonicity over the grid; distinct by spec + '
        'grid; non-trivial if an oracle verdict was reached')
ASSUMPTIONS = ['vt/ref/quad.py bracket/quadrature; "floating-point resolution of L" is taken as 1e-9*L (scipy quad default epsrel 1.49e-8 bounds its noise)',
               'termination is decided as bounded progress: at most 200 length evaluations per segment-level call; a hang is cut by a '
               '40 s wall-clock watchdog and reported as inconclusive']
TIERS = {
    'quick': {'shards': 14, 'random': 3000, 'timeout': 900, 'min_cases': 2000, 'max_timeouts': 0,
              'require_branches': ['scale>=1e4', 'scale<=1e-2', 'kind:path', 'kind:Arc', 'kind:CubicBezier',
                                   'kind:QuadraticBezier', 'kind:Line', 's:out-of-range', 's:segment-boundary', 'path:retraced', 'seg:A:nearly-circular']},
    'thorough': {'shards': 14, 'random': 100000, 'timeout': 3400, 'min_cases': 50000, 'max_timeouts': 0,
                 'require_branches': ['scale>=1e4', 'scale<=1e-2', 'kind:path', 'kind:Arc', 'kind:CubicBezier',
                                      'kind:QuadraticBezier', 'kind:Line', 's:out-of-range', 's:segment-boundary', 'path:retraced', 'seg:A:nearly-circular']},
}
CASE_TIMEOUT = 40
EPS = gen.EPS
MAX_STEPS = 200


def _length_calls():
    return sum(m.calls for n, m in monitor.MONITORS.items() if n.endswith('.length'))


def _bps(seg):
    n = type(seg).__name__
    if n == 'Line':
        return [seg.start, seg.end]
    if n == 'QuadraticBezier':
        return [seg.start, seg.control, seg.end]
    return [seg.start, seg.control1, seg.control2, seg.end]


def ref_bracket(curve, t):
    n = type(curve).__name__
    if n == 'Arc':
        a = curve
        return Q.arc_bracket(a.center.real, a.center.imag, a.radius.real, a.radius.imag,
                             math.radians(a.rotation), float(a.theta), float(a.delta), 0.0, float(t), N=2048)
    return Q.bezier_bracket([complex(p) for p in _bps(curve)], 0.0, float(t), N=2048)


_WHOLE = {}


def _whole_bracket(curve):
    key = repr(gen.seg_spec(curve))
    if key not in _WHOLE:
        if len(_WHOLE) > 64:
            _WHOLE.clear()
        _WHOLE[key] = ref_bracket(curve, 1.0)
    return _WHOLE[key]


def pre_inv(call):
    return _length_calls()


def _cls(curve):
    return type(curve).__name__


def post_inv(call):
    ctx = core.CTX
    curve, s = call.a.get('curve', call.a.get('self')), call.a.get('s')
    if not isinstance(s, (int, float, np.floating, np.integer)):
        return False
    s = float(s)
    name = _cls(curve)
    steps = _length_calls() - call.pre
    ctx.verdict()
    ctx.note('max_length_evaluations_in_one_call',
             max(0, steps - ctx.notes.get('max_length_evaluations_in_one_call', 0)))
    t = call.ret
    try:
        t = float(t)
    except (TypeError, ValueError):
        ctx.violation('result-not-a-number/' + name, 'ilength returned %r' % (t,))
        return True
    s_tol = float(call.a.get('s_tol', 1e-12))
    with monitor.suspended():
        L = float(curve.length(error=call.a.get('error'), min_depth=call.a.get('min_depth')))
    if not (0 <= t <= 1):
        ctx.violation('t-out-of-range/' + name, 'ilength returned a parameter outside [0,1]', {'s': s, 't': t, 'L': L})
        return True
    if s == 0 and t != 0:
        ctx.violation('ilength(0)/' + name, 'ilength(0) != 0', {'t': t})
    if s == L and t != 1:
        ctx.violation('ilength(L)/' + name, 'ilength(L) != 1', {'t': t, 'L': L})
    if name != 'Path' and steps > MAX_STEPS:
        ctx.violation('no-bounded-progress/' + name,
                      'ilength needed %d length evaluations (bisection on doubles needs < 80)' % steps,
                      {'s': s, 'L': L, 'steps': steps})
    tol = max(s_tol, 1e-9 * L)
    if name == 'Path':
        with monitor.suspended():
            got = float(curve.length(0, t)) if 0 < t < 1 else (0.0 if t == 0 else L)
        if not (abs(got - s) <= max(4 * s_tol, 1024 * EPS * L)):
            ctx.violation('not-inverse/Path', 'arc length from 0 to ilength(s) differs from s',
                          {'s': s, 'T': t, 'length(0,T)': got, 'L': L, 'tol': tol})
        return True
    lower, upper = ref_bracket(curve, t)
    width = upper - lower
    # the library's own length() may differ from the true length by up to 1e-6 relative (C06's subject; seen: 5e-9
    # on a hairpin cubic of size 1e6).  Whatever it is observed to be off by on the whole curve is not charged to
    # the inverse: s is a length in the library's own measure.
    lo1, up1 = _whole_bracket(curve)
    e = max(0.0, lo1 - L, L - up1)
    if e > 1e-6 * L:
        ctx.skip('library length outside the C06 tolerance (judged there)')
        return True
    if e > 0:
        ctx.note('library_length_off_by_more_than_the_bracket')
    tol += 2 * e
    with monitor.suspended():
        own = float(curve.length(0, t, error=call.a.get('error'), min_depth=call.a.get('min_depth'))) if 0 < t < 1 else (0.0 if t == 0 else L)
    # "to within the requested tolerance or the floating-point resolution of L, whichever is larger": in the
    # library's own measure this is exactly what the search iterates on, so it can be held to it
    if not (abs(own - s) <= max(2 * s_tol, 256 * EPS * L)):
        ctx.violation('not-inverse-of-length/' + name, 'length(0, ilength(s)) differs from s',
                      {'s': s, 't': t, 'length(0,t)': own, 'L': L, 'curve': gen.seg_spec(curve)})
        return True
    # the same for the partial length: what the library's length(0,t) is observed to be off the bracket by (up to C06's
    # 1e-6; beyond that C06 judges it) is length()'s error, not the inverse's - seen: 2.6e-9 relative on a cubic of size 2e4
    e_t = max(0.0, lower - own, own - upper)
    if e_t > 1e-6 * L:
        ctx.skip('library length(0,t) outside the C06 tolerance (judged there)')
        return True
    if e_t > 0:
        ctx.note('library_partial_length_off_the_bracket')
    tol += e_t
    if not (lower - tol <= s <= upper + tol):
        ctx.violation('not-inverse/' + name, 'reference arc length from 0 to ilength(s) differs from s',
                      {'s': s, 't': t, 'ref_lower': lower, 'ref_upper': upper, 'L': L, 'tol': tol,
                       'curve': gen.seg_spec(curve)})
    elif width > 1e-6 * L:
        ctx.note('reference_bracket_wide_(near_cusp)')
    return True


def exc_inv(call):
    ctx = core.CTX
    curve, s = call.a.get('curve', call.a.get('self')), call.a.get('s')
    if not isinstance(s, (int, float, np.floating, np.integer)):
        return False
    s = float(s)
    name = _cls(curve)
    e = call.exc
    with monitor.suspended():
        try:
            L = float(curve.length(error=call.a.get('error'), min_depth=call.a.get('min_depth')))
        except Exception:
            return False
    if not (L > 0) or not math.isfinite(L):
        return False          # ilength of a zero-length curve is outside the statement
    ctx.verdict()
    inside = 0 <= s <= L
    if isinstance(e, ValueError) and not inside:
        ctx.branch('s:out-of-range')
        return True
    if call.depth > 0 and name != 'Path':
        pass
    steps = _length_calls() - (call.pre or 0)
    ctx.violation('raises/%s/%s' % (type(e).__name__, name),
                  'ilength(s) raised %s for s %s [0, L]' % (type(e).__name__, 'inside' if inside else 'outside'),
                  {'s': s, 'L': L, 'length_evaluations': steps, 'exc': str(e)[:100],
                   'where': ''.join(__import__('traceback').format_tb(e.__traceback__)[-3:])[-700:],
                   'curve': gen.seg_spec(curve) if name != 'Path' else gen.path_spec(curve)})
    return True


def install(ctx):
    import svgpathtools.path as P
    for cls in (P.Line, P.QuadraticBezier, P.CubicBezier, P.Arc, P.Path):
        monitor.install(cls, 'length')           # counted only (bisection steps)
    monitor.install(P, 'inv_arclength', post=post_inv, pre=pre_inv, on_exc=exc_inv)
    # ... and at the boundary the user calls: the ilength methods (normally thin wrappers of inv_arclength; a
    # method that answers by itself must meet the same statement)
    for cls in (P.Line, P.QuadraticBezier, P.CubicBezier, P.Arc, P.Path):
        monitor.install(cls, 'ilength', post=post_inv, pre=pre_inv, on_exc=exc_inv)


# --------------------------------------------------------------------------
def cases(ctx):
    rng = ctx.rng
    n = TIERS[ctx.tier]['random'] // ctx.nshards
    scales = [1e-3, 1e-2, 1, 1e3, 1e4, 1e5, 1e6]
    for i in range(n):
        scale = rng.choice(scales) * rng.uniform(0.5, 2)
        kind = rng.choice(['L', 'Q', 'C', 'C', 'A', 'path', 'path'])

        def p():
            return gen.scaled_point(rng, scale)
        if kind == 'path':
            kinds = [rng.choice('LQCA') for _ in range(rng.randint(2, 5))]
            pt = p()
            specs = []
            for k in kinds:
                e = p()
                if e == pt:
                    e = pt + scale
                if k == 'A':
                    specs.append(['A', [pt.real, pt.imag], [abs(e - pt) * rng.uniform(.6, 2), abs(e - pt) * rng.uniform(.6, 2)],
                                  rng.uniform(0, 180), rng.random() < .5, rng.random() < .5, [e.real, e.imag]])
                else:
                    ctrl = [p() for _ in range({'L': 0, 'Q': 1, 'C': 2}[k])]
                    specs.append([k] + [[z.real, z.imag] for z in [pt] + ctrl + [e]])
                pt = e
            cls = ['path']
            if rng.random() < 0.3:
                # a path that retraces itself: equal-valued segments occur more than once (a loop run twice, or
                # there-back-there), so "which segment" can only be answered by position, never by value
                cls = ['path:retraced']
                first = specs[0]
                if first[0] == 'A':
                    back = ['A', first[-1], first[2], first[3], first[4], not first[5], first[1]]
                else:
                    back = [first[0]] + first[:0:-1]
                head = [first, back, first]
                rest = specs[1:]
                if rest:
                    rest[0] = list(rest[0])
                    rest[0][1] = first[-1]
                specs = head + rest
            yield {'kind': 'path', 'segs': specs, 'seed': rng.randrange(1 << 30), 'scale': scale, 'cls': cls}
        else:
            s0, e = p(), p()
            if e == s0:
                e = s0 + scale
            cls = ['seg:' + kind]
            if kind == 'A':
                spec = ['A', [s0.real, s0.imag], [abs(e - s0) * rng.uniform(.4, 3), abs(e - s0) * rng.uniform(.4, 3)],
                        rng.uniform(-180, 180), rng.random() < .5, rng.random() < .5, [e.real, e.imag]]
                if rng.random() < 0.3:
                    # nearly, but not exactly, circular: the speed is nearly, but not exactly, constant
                    r = spec[2][0]
                    spec[2] = [r, r * (1 + rng.choice([-1, 1]) * 10.0 ** rng.uniform(-7.5, -3))]
                    cls = ['seg:A:nearly-circular']
            else:
                ctrl = [p() for _ in range({'L': 0, 'Q': 1, 'C': 2}[kind])]
                spec = [kind] + [[z.real, z.imag] for z in [s0] + ctrl + [e]]
            yield {'kind': 'seg', 'seg': spec, 'seed': rng.randrange(1 << 30), 'scale': scale, 'cls': cls}


def run_case(ctx, case):
    import random
    rng = random.Random(case['seed'])
    curve = gen.seg(case['seg']) if case['kind'] == 'seg' else gen.path(case['segs'])
    ctx.branch('kind:' + ('path' if case['kind'] == 'path' else type(curve).__name__))
    if case['cls'][0] in ('path:retraced', 'seg:A:nearly-circular'):
        ctx.branch(case['cls'][0])
    if case['scale'] >= 1e4:
        ctx.branch('scale>=1e4')
    if case['scale'] <= 1e-2:
        ctx.branch('scale<=1e-2')
    L = float(curve.length())
    if not (L > 0) or not math.isfinite(L):
        raise core.Skip('zero or non-finite length')
    grid = [0, L] + [L * k / 6.0 for k in range(1, 6)] + [rng.uniform(0, L) for _ in range(2)]
    if case['kind'] == 'path':
        acc = 0.0
        for s in list(curve)[:-1]:
            acc += float(s.length())
            ctx.branch('s:segment-boundary')
            grid += [acc, float(np.nextafter(acc, 0)), float(np.nextafter(acc, L))]
    grid = sorted(x for x in set(grid) if 0 <= x <= L)
    res = []
    for s in grid:
        try:
            res.append((s, float(curve.ilength(s))))
        except Exception:
            res.append((s, None))         # judged by the exception observer
    # monotone in s
    tol = max(1e-12, 1e-9 * L)
    for (s1, t1), (s2, t2) in zip(res, res[1:]):
        if t1 is None or t2 is None:
            continue
        ctx.verdict()
        if s2 - s1 >= 100 * tol and not (t1 < t2):
            ctx.violation('not-monotone/' + case['cls'][0], 'ilength is not increasing in s',
                          {'s1': s1, 't1': t1, 's2': s2, 't2': t2, 'L': L})
            break
        if t2 < t1 - 1e-9:
            ctx.violation('not-monotone/' + case['cls'][0], 'ilength decreases', {'s1': s1, 't1': t1, 's2': s2, 't2': t2})
            break
    for s in (-1e-3 * L, L * (1 + 1e-6), -L, 2 * L):
        try:
            curve.ilength(s)
        except ValueError:
            pass
        except Exception:
            pass


def crash_key(ctx, case, e, site):
    return 'crash/%s@%s/%s' % (type(e).__name__, site, case['cls'][0])


REGISTER = True
TECHNIQUE = 'runtime monitors on inv_arclength and on the ilength methods of every curve type (result, exception, number of length evaluations) with a reference arc-length bracket from vt/ref/quad.py and the inverse relation against the library\'s own length; sorted-grid workload for monotonicity at coordinate scales 1e-3..1e6, retraced paths, nearly circular arcs'
LEVEL_TEXT = ('Every inv_arclength / ilength call (segment-level and path-level) made by the workload must return a parameter in [0,1] with '
              'length(0,t) = s to max(2 s_tol, 256 eps L) and whose reference arc length from 0 brackets s within max(s_tol, 1e-9 L) (plus the observed error of the library\'s own total length, C06\'s subject), return 0/1 at s = 0/L, raise ValueError exactly for s outside [0,L] and nothing '
              'else, and use a bounded number of length evaluations; monotonicity is checked on a sorted grid including the segment boundaries of paths.')
LEVEL_NOTE = 'Termination is observed as bounded progress (<= 200 length evaluations per segment-level call), not proved; watchdog firing = inconclusive.'
