"""C02 - parse_path implements the SVG path-data semantics for every command sequence.

Monitor : post-condition + exception observer on the real Path._parse_path
          (every parse anywhere: parse_path, Path('...'), svg2paths, Document).
Oracle  : vt/ref/svgpath.py - an independent interpreter of abstract command
          programs written from the SVG specification, fed either with the
          program the driver rendered the string from (side channel) or, for
          strings the driver did not produce, with the oracle's own tokenizer.
"""
import itertools
import random

from .. import core, gen, monitor
from ..ref import svgpath as R

PROP = 'C02'
CONFIGS = ['scipy']
DECIDING = ['Path._parse_path']
ANCHORED = ['Path._parse_path', 'Path._tokenize_path', 'Path.__init__', 'parse_path']
RULE = ('cases = abstract command programs (exhaustive over all programs M + <=k further commands over the 20 '
        'letters, each in a single-group and a repeated-group (implicit command) variant and a variant whose pen '
        'returns to the subpath start before Z; plus seeded random programs of 6-40 commands), each rendered under '
        '3 random legal lexical spellings and parsed by the real parser; distinct by (program, spelling seed); '
        'non-trivial if the post-condition compared the parse with the reference interpreter')
RULE += '; plus d-strings in which one argument text follows both an arc and a non-arc command, and negative arc radii'
ASSUMPTIONS = ['the reference interpreter (vt/ref/svgpath.py, ~100 lines, written from the spec prose) is right',
               'arcs whose end point equals the current point are not generated (the spec omits them; the library asserts)']
EPS = gen.EPS
TIERS = {
    'quick': {'shards': 14, 'maxlen': 3, 'random': 6000, 'timeout': 600, 'min_cases': 15000,
              'exhaustive': True, 'require_branches': ['arm:Z-adds-line', 'arm:Z-no-line', 'arm:S-reflect',
                                                       'arm:S-fallback', 'arm:T-reflect', 'arm:T-fallback',
                                                       'arm:zero-radius', 'arm:implicit-after-m', 'lex:glued-flags',
                                                       'lex:shared-argument-text']},
    'thorough': {'shards': 14, 'maxlen': 4, 'random': 200000, 'timeout': 3000, 'min_cases': 300000,
                 'exhaustive': True, 'require_branches': ['arm:Z-adds-line', 'arm:Z-no-line', 'arm:S-reflect',
                                                          'arm:S-fallback', 'arm:T-reflect', 'arm:T-fallback',
                                                          'arm:zero-radius', 'arm:implicit-after-m',
                                                          'lex:glued-flags', 'lex:shared-argument-text']},
}

EXPECT = {}          # side channel: string -> (program, features)
TRANSITIONS = set()


def features(prog, glue):
    f = []
    for i in range(1, len(prog)):
        if prog[i][0] in 'SsTt' and prog[i - 1][0] in 'Zz':
            f.append('ST-directly-after-Z')
            break
    if glue and any(p[0] in 'Aa' for p in prog):
        f.append('glued-arc-flags')
    return f


def _tol_eq(a, b, mag):
    return abs(complex(a) - complex(b)) <= 8 * EPS * mag


def compare(segs, ref, meta, prog):
    """None or (kind, index of first differing reference segment)"""
    n = min(len(segs), len(ref))
    for k in range(n):
        s, r = segs[k], ref[k]
        mag = meta[k][2]
        tn = type(s).__name__
        want = {'L': 'Line', 'Q': 'QuadraticBezier', 'C': 'CubicBezier', 'A': 'Arc'}[r[0]]
        if tn != want:
            return ('type', k, '%s instead of %s' % (tn, want))
        if r[0] == 'L':
            pts = [(s.start, r[1]), (s.end, r[2])]
        elif r[0] == 'Q':
            pts = [(s.start, r[1]), (s.control, r[2]), (s.end, r[3])]
        elif r[0] == 'C':
            pts = [(s.start, r[1]), (s.control1, r[2]), (s.control2, r[3]), (s.end, r[4])]
        else:
            pts = [(s.start, r[1]), (s.end, r[7])]
            if bool(s.large_arc) != r[5] or bool(s.sweep) != r[6]:
                return ('arcflags', k, 'flags (%s,%s) instead of (%s,%s)' % (s.large_arc, s.sweep, r[5], r[6]))
            if s.rotation != r[4]:
                return ('arcrot', k, 'rotation %r instead of %r' % (s.rotation, r[4]))
            # radii: only comparable when the ellipse fits (otherwise auto-enlarged: C04's subject)
            import math
            phi = math.radians(r[4])
            dx, dy = (r[1].real - r[7].real) / 2, (r[1].imag - r[7].imag) / 2
            x1 = math.cos(phi) * dx + math.sin(phi) * dy
            y1 = -math.sin(phi) * dx + math.cos(phi) * dy
            lam = (x1 / r[2]) ** 2 + (y1 / r[3]) ** 2
            if lam < 1 - 1e-9 and (s.radius.real != r[2] or s.radius.imag != r[3]):
                return ('arcradius', k, 'radius %r instead of (%r,%r)' % (s.radius, r[2], r[3]))
        for i, (a, b) in enumerate(pts):
            if not _tol_eq(a, b, mag):
                return ('points', k, 'point %d is %r, reference %r' % (i, a, b))
    if len(segs) != len(ref):
        return ('count', n, '%d segments, reference %d' % (len(segs), len(ref)))
    return None


def transition_of(prog, ci, gi):
    letter = prog[ci][0]
    prev = prog[ci - 1][0] if ci > 0 else '^'
    if gi > 0:
        prev = letter
    return '%s>%s%s' % (prev.upper() + ('r' if prev.islower() and prev != '^' else ''),
                        letter.upper() + ('r' if letter.islower() else ''),
                        '(implicit)' if gi > 0 else '')


def _program_for(pathdef):
    hit = EXPECT.get(pathdef)
    if hit is not None:
        return hit[0], hit[1], True
    try:
        return R.tokenize(pathdef), [], False
    except R.Ungrammatical:
        return None, None, False


def post_parse(call):
    ctx = core.CTX
    a = call.a
    pathdef = a.get('pathdef')
    if not isinstance(pathdef, str):
        return False
    prog, feats, registered = _program_for(pathdef)
    if prog is None:
        ctx.skip('string not grammatical per the oracle tokenizer')
        return False
    if not registered:
        ctx.note('strings_tokenized_by_oracle')
    cur0 = a.get('current_pos', 0j)
    ref, meta, trace = R.interpret(prog, complex(cur0))
    if any(r[0] == 'A' and r[1] == r[7] for r in ref):
        ctx.skip('arc to the current point')
        return False
    segs = list(call.ret)
    ctx.verdict()
    # reach bookkeeping (semantic arms, decided by the reference)
    for ci, (letter, groups) in enumerate(prog):
        up = letter.upper()
        if up == 'Z':
            cur, sub = trace[ci]
            ctx.branch('arm:Z-adds-line' if (sub is not None and cur != sub) else 'arm:Z-no-line')
        for gi in range(len(groups)):
            TRANSITIONS.add(transition_of(prog, ci, gi))
        if letter == 'm' and len(groups) > 1:
            ctx.branch('arm:implicit-after-m')
        if up == 'A' and any(g[0] == 0 or g[1] == 0 for g in groups):
            ctx.branch('arm:zero-radius')
    for k, (ci, gi, mag) in enumerate(meta):
        up = prog[ci][0].upper()
        if up in 'ST':
            r = ref[k]
            ctx.branch('arm:%s-%s' % (up, 'fallback' if r[2] == r[1] else 'reflect'))
    res = compare(segs, ref, meta, prog)
    if res is not None:
        kind, k, detail = res
        if k < len(meta):
            tr = transition_of(prog, meta[k][0], meta[k][1])
        else:
            tr = 'end'
        key = 'mismatch/%s/%s%s' % (kind, tr, ('/' + '+'.join(feats)) if feats else '')
        ctx.violation(key, 'parse differs from the SVG reference at segment %d (%s): %s' % (k, tr, detail),
                      {'d': pathdef[:300], 'detail': detail})
    return True


def exc_parse(call):
    ctx = core.CTX
    pathdef = call.a.get('pathdef')
    if not isinstance(pathdef, str):
        return False
    prog, feats, registered = _program_for(pathdef)
    if prog is None:
        return False
    ref, meta, trace = R.interpret(prog, complex(call.a.get('current_pos', 0j)))
    if any(r[0] == 'A' and r[1] == r[7] for r in ref):
        ctx.skip('arc to the current point')
        return False
    ctx.verdict()
    e = call.exc
    key = 'exc/%s/%s' % (type(e).__name__, '+'.join(feats) if feats else 'plain')
    ctx.violation(key, 'grammatical path data raised %s: %s' % (type(e).__name__, str(e)[:120]),
                  {'d': pathdef[:300]})
    return True


def install(ctx):
    import svgpathtools.path as P
    monitor.install(P.Path, '_parse_path', post=post_parse, on_exc=exc_parse)


# --------------------------------------------------------------------------
# workload

def _gval(k):
    """generic dyadic argument values without accidental coincidences"""
    return float(((k * 37) % 101) - 50) + ((k * 13) % 16) / 16.0 + 0.03125


def _args_for(letter, counter, rng=None, cls=None):
    up = letter.upper()
    n = R.NARGS[up]
    if n == 0:
        return None
    g = []
    for j in range(n):
        counter[0] += 1
        if rng is not None and cls is not None:
            # arc arithmetic squares its arguments: keep them where squares stay normal doubles
            v = gen.coord(rng, cls if (up != 'A' or cls in ('int', 'half', 'rand', 'dyadic')) else 'rand')
        else:
            v = _gval(counter[0])
        if up == 'A':
            if j in (0, 1):
                v = abs(v) + 1.0 if rng is None else abs(v)
                if rng is not None and (v == 0 or v != v):
                    v = 1.0
                if rng is not None and rng.random() < 0.08:
                    v = -v              # F.6.6: a negative radius stands for its absolute value
            elif j in (3, 4):
                v = (counter[0] * 7 + j) % 2 if rng is None else rng.randint(0, 1)
        g.append(v)
    return g


def _build(letters, ngroups, counter, rng=None, cls=None):
    prog = [['M', [_args_for('M', counter, rng, cls)]]]
    for L in letters:
        if L in 'Zz':
            prog.append([L, []])
        else:
            prog.append([L, [_args_for(L, counter, rng, cls) for _ in range(ngroups)]])
    return prog


def _return_variant(prog):
    """make the pen return to the subpath start right before each Z (where the
    preceding command is an absolute command with an end point)"""
    segs, meta, trace = R.interpret(prog)
    changed = False
    for ci in range(1, len(prog)):
        if prog[ci][0] in 'Zz' and prog[ci - 1][0] in 'LCSQT' and prog[ci - 1][1]:
            cur, sub = trace[ci]
            if sub is None:
                continue
            g = prog[ci - 1][1][-1]
            g[-2], g[-1] = sub.real, sub.imag
            changed = True
    return changed


def cases(ctx):
    rng = ctx.rng
    plan = TIERS[ctx.tier]
    idx = 0
    for L in range(0, plan['maxlen'] + 1):
        for letters in itertools.product(R.LETTERS, repeat=L):
            idx += 1
            if idx % ctx.nshards != ctx.shard:
                continue
            counter = [idx * 3]
            for variant in ('single', 'repeat', 'return', 'zero-radius'):
                if variant == 'repeat' and not any(l not in 'Zz' for l in letters):
                    continue
                if variant == 'zero-radius' and not any(l in 'Aa' for l in letters):
                    continue
                prog = _build(letters, 2 if variant == 'repeat' else 1, counter)
                if variant == 'repeat':
                    prog[0][1].append(_args_for('M', counter))
                if variant == 'return' and not _return_variant(prog):
                    continue
                if variant == 'zero-radius':
                    for p in prog:
                        if p[0] in 'Aa':
                            p[1][0][idx % 2] = 0.0
                glue = (idx % 5 == 0) and any(l in 'Aa' for l in letters)
                yield {'kind': 'prog', 'prog': prog, 'spell_seed': idx, 'glue': glue,
                       'cls': ['exhaustive', 'len:%d' % L, 'variant:' + variant] + (['glued-flags'] if glue else [])}
    n = plan['random'] // ctx.nshards
    # the same argument text after different commands: "20 20 0 01 10 10" is one arc (flags 0 and 1 written
    # together) after a/A and six plain numbers after c, l, t, ...; how a run of arguments splits into numbers
    # depends on the command it follows, never on the text alone (and not on what was parsed earlier)
    for i in range(max(20, n // 25)):
        def num():
            return rng.choice([str(rng.randint(1, 60)), '%d.%d' % (rng.randint(0, 40), rng.randint(1, 9)), '.%d' % rng.randint(1, 9)])
        f1, f2 = rng.randint(0, 1), rng.randint(0, 1)
        x = num()
        if rng.random() < 0.5:
            text = '%s %s %s %d%d %s %s' % (num(), num(), str(rng.randint(0, 90)), f1, f2, x, num())
        else:
            text = '%s %s %s %d %d%s %s' % (num(), num(), str(rng.randint(0, 90)), f1, f2, x.lstrip('.') if x[0] == '.' else x, num())
        cmds = [rng.choice('aA'), rng.choice('cClLtTmM')]
        if rng.random() < 0.5:
            cmds.append(rng.choice('aAcl'))
        rng.shuffle(cmds)
        d = 'M%s %s' % (num(), num()) + ''.join('%s%s%s' % (c, rng.choice(['', ' ']), text) for c in cmds)
        yield {'kind': 'text', 'd': d, 'cls': ['shared-argument-text']}
    for i in range(n):
        cc = rng.choice(['int', 'half', 'rand', 'tiny', 'huge', 'mixed', 'expfmt', 'dyadic'])
        letters = [rng.choice(R.LETTERS) for _ in range(rng.randint(6, 40))]
        counter = [0]
        prog = [[rng.choice('Mm'), [_args_for('M', counter, rng, cc) for _ in range(rng.randint(1, 3))]]]
        for Lr in letters:
            if Lr in 'Zz':
                prog.append([Lr, []])
            else:
                prog.append([Lr, [_args_for(Lr, counter, rng, cc) for _ in range(rng.choice([1, 1, 1, 2, 3]))]])
        if rng.random() < 0.3:
            _return_variant(prog)
        glue = rng.random() < 0.15
        yield {'kind': 'prog', 'prog': prog, 'spell_seed': rng.randrange(1 << 40), 'glue': glue,
               'cls': ['random', 'coord:' + cc] + (['glued-flags'] if glue else [])}


def run_case(ctx, case):
    from svgpathtools import parse_path, Path
    if case['kind'] == 'text':
        ctx.branch('lex:shared-argument-text')
        try:
            R.tokenize(case['d'])
        except R.Ungrammatical as e:
            raise RuntimeError('generator produced an ungrammatical string: %r (%s)' % (case['d'], e))
        try:
            parse_path(case['d'])
        except Exception:     # judged by the exception observer
            pass
        return
    prog = case['prog']
    glue = bool(case.get('glue'))
    feats = features(prog, glue)
    parsed = []
    for k in range(3):
        r = random.Random('%s/%d' % (case['spell_seed'], k))
        s = R.render(prog, r, glue_flags=glue and k > 0)
        f = [x for x in feats if x != 'glued-arc-flags' or k > 0]
        if 'glued-arc-flags' in f:
            ctx.branch('lex:glued-flags')
        # harness self-check: the rendering must tokenize back to the program
        try:
            back = R.tokenize(s)
        except R.Ungrammatical as e:
            raise RuntimeError('renderer produced an ungrammatical string: %r (%s)' % (s, e))
        if back != [[l, [[float(x) if not (l in 'Aa' and j in (3, 4)) else int(x) for j, x in enumerate(g)]
                         for g in gs]] for l, gs in prog]:
            raise RuntimeError('renderer/tokenizer disagree on %r' % s)
        EXPECT.clear()
        EXPECT[s] = (prog, f)
        try:
            p = parse_path(s) if k != 1 else Path(s)
        except Exception:     # judged by the exception observer
            continue
        parsed.append((s, p))
    EXPECT.clear()
    for (s1, p1), (s2, p2) in zip(parsed, parsed[1:]):
        ctx.verdict()
        if not (p1 == p2) or (p1 != p2):
            ctx.violation('spellings-unequal/%s' % ('+'.join(feats) if feats else 'plain'),
                          'two spellings of one program parse to unequal paths',
                          {'d1': s1[:300], 'd2': s2[:300]})


def finish(ctx):
    ctx.note('distinct_transitions_seen_in_this_shard', len(TRANSITIONS))


def crash_key(ctx, case, e, site):
    return 'crash/%s@%s' % (type(e).__name__, site)


REGISTER = True
TECHNIQUE = 'runtime monitor on the real Path._parse_path checked against an independent reference interpreter of the SVG path grammar; exhaustive bounded program enumeration + random programs x random legal spellings'
LEVEL_TEXT = ('Every parse performed by the workload is compared segment-by-segment with a reference interpreter written from '
              'the SVG spec; all programs M + <=3 (quick) / <=4 (thorough) further commands over the 20 letters are enumerated '
              'completely (single group, repeated implicit group, pen-returns-to-start and zero-radius variants), random 6-40 '
              'command programs beyond; each under 3 random legal spellings which must parse to equal paths.')
LEVEL_NOTE = ('Trusts the reference interpreter and tokenizer in vt/ref/svgpath.py (cross-checked against each other on every '
              'rendered string) and float(). Programs longer than the enumerated bound are only sampled.')
