"""C12 - Every transversal crossing is reported, exactly once.

Monitors: intersect of the four segment classes, bezier_by_line_intersections,
          Path.intersect (same attach points as C11).
Ground truth, two independent ways:
  O1  constructed crossings: the driver builds A and B through a common point with
      tangents >= 6 degrees apart, an independent dense polyline sweep certifies that no
      other crossing lies within 0.05 in either parameter, and registers the expectation;
      post-condition: exactly one reported pair lies within 1e-4 of (tA, tB).
  O2  exact counts for Line x Line, Line x Bezier, Bezier x Line on EVERY such call
      (also those made inside Path.intersect / path_encloses_pt): the Bezier is substituted
      into the line's implicit form over the rationals, real roots are isolated with Sturm
      sequences; in general position the number of reported pairs must equal the count.
"""
import cmath
import math

import numpy as np

from .. import core, gen, monitor
from . import _isect as I

PROP = 'C12'
CONFIGS = ['scipy']
DECIDING = ['Line.intersect', 'QuadraticBezier.intersect', 'CubicBezier.intersect', 'Arc.intersect', 'Path.intersect',
            'bezier.bezier_by_line_intersections']
ANCHORED = ['bezier_intersections', 'ApproxSolutionSet', 'bezier_by_line_intersections', 'polyroots', 'Arc.intersect',
            'Path.intersect', 'boxes_intersect', 'phase2t']
RULE = ('cases = (a) an ordered pair of segments constructed through a common point (all 16 type pairs; two arcs only circular and '
        'unrotated) whose crossing is certified isolated by an independent polyline sweep, (b) Line x {Line, Quadratic, Cubic} pairs in '
        'random position with 0-3 crossings (some pairs of crossings 1e-3..1e-6 apart) judged by exact rational root counting, (c) axis-'
        'aligned straight curves, (d) pairs of paths assembled from constructed crossings; distinct by the two specs; non-trivial if an '
        'expectation or an exact count was compared')
RULE += '; axis-parallel lines through unrotated ellipses; straight curves (evenly spaced collinear control points) crossed by oblique lines'
ASSUMPTIONS = ['vt/ref/exact.py (Sturm counting); the independent sweep uses 1024-segment polylines of the curves\' own point()',
               'general position for exact counts: simple roots, >= 1e-4 apart, every root and line parameter >= 1e-6 from 0 and 1, crossing '
               'angle sine >= 1e-3; everything else is skipped and counted',
               'crossings exactly on a joint of a path are excluded (statement)']
TIERS = {
    'quick': {'shards': 14, 'random': 4500, 'timeout': 900, 'min_cases': 2500, 'max_timeouts': 10,
              'require_branches': ['O1:expectation-checked', 'O2:exact-count-checked', 'O2:count>=2', 'pair:Arc-CubicBezier',
                                   'pair:CubicBezier-CubicBezier', 'arc:sweep=False', 'cfg:axis-aligned', 'cfg:ellipse-axis-line', 'cfg:straight-curve', 'cfg:paths',
                                   'O2:inside-Path.intersect', 'O1:two-close-crossings-checked']},
    'thorough': {'shards': 14, 'random': 160000, 'timeout': 3400, 'min_cases': 80000, 'max_timeouts': 200,
                 'require_branches': ['O1:expectation-checked', 'O2:exact-count-checked', 'O2:count>=2',
                                      'pair:Arc-CubicBezier', 'pair:CubicBezier-CubicBezier', 'arc:sweep=False',
                                      'cfg:axis-aligned', 'cfg:ellipse-axis-line', 'cfg:straight-curve', 'cfg:paths', 'O2:inside-Path.intersect',
                                      'O1:two-close-crossings-checked']},
}
CASE_TIMEOUT = 20
EXPECT = {}       # (id(a), id(b)) -> (tA, tB)
MULTI = {}        # (id(a), id(b)) -> [(tA, tB), (tA', tB')] two close but distinct crossings


def _pairs(ret):
    return [(float(t1), float(t2)) for t1, t2 in ret]


def post_seg_intersect(call):
    ctx = core.CTX
    a, b = call.args[0], call.a.get('other_seg')
    if not I.is_seg(b):
        return False
    try:
        pairs = _pairs(call.ret)
    except (TypeError, ValueError):
        return False
    reached = False
    key = I.pair_key(a, b)
    # ---- O1: registered expectation ------------------------------------
    exp = EXPECT.get((id(a), id(b)))
    if exp is not None:
        tA, tB = exp
        ctx.verdict()
        reached = True
        ctx.branch('O1:expectation-checked')
        ctx.branch('pair:' + key)
        near = [p for p in pairs if abs(p[0] - tA) <= 1e-4 and abs(p[1] - tB) <= 1e-4]
        if len(near) != 1:
            kind = 'missed' if not near else 'reported-%d-times' % len(near)
            arcs = [x for x in (a, b) if type(x).__name__ == 'Arc']
            extra = ''
            if arcs and kind == 'missed':
                extra = '/arc-sweep=%s' % ('+'.join(sorted({str(bool(x.sweep)) for x in arcs})))
            ctx.violation('O1/%s/%s%s' % (key, kind, extra),
                          'a certified isolated transversal crossing is %s' % kind,
                          {'a': gen.seg_spec(a), 'b': gen.seg_spec(b), 'expected': [tA, tB], 'reported': pairs[:8]})
    multi = MULTI.get((id(a), id(b)))
    if multi is not None:
        ctx.verdict()
        reached = True
        ctx.branch('O1:two-close-crossings-checked')
        for tA, tB in multi:
            near = [p for p in pairs if abs(p[0] - tA) <= 1e-4 and abs(p[1] - tB) <= 1e-4]
            if len(near) != 1:
                kind = 'missed' if not near else 'reported-%d-times' % len(near)
                ctx.violation('O1-close-pair/%s/%s' % (key, kind),
                              'one of two distinct transversal crossings (>= 1e-3 apart in parameter) is %s' % kind,
                              {'a': gen.seg_spec(a), 'b': gen.seg_spec(b), 'expected': multi, 'reported': pairs[:8]})
                break
    # ---- O2: exact count -------------------------------------------------
    na, nb = type(a).__name__, type(b).__name__
    if 'Arc' not in (na, nb) and 'Line' in (na, nb):
        line, bez = (a, b) if na == 'Line' else (b, a)
        res = I.exact_line_bezier(I.bps_of(bez), complex(line.start), complex(line.end))
        if res[0] == 'skip':
            ctx.skip('exact count not applicable: ' + res[1])
        else:
            ctx.verdict()
            reached = True
            ctx.branch('O2:exact-count-checked')
            if res[1] >= 2:
                ctx.branch('O2:count>=2')
            if call.depth > 0:
                ctx.branch('O2:inside-Path.intersect')
            if len(pairs) != res[1]:
                kind = 'too-few' if len(pairs) < res[1] else 'too-many'
                ctx.violation('O2/%s/%s' % (key, kind),
                              '%d crossings exist (exact rational count), %d reported' % (res[1], len(pairs)),
                              {'a': gen.seg_spec(a), 'b': gen.seg_spec(b), 'exact': res[2], 'reported': pairs[:8]})
    return reached


def post_bbl(call):
    ctx = core.CTX
    bez, line = call.a.get('bezier'), call.a.get('line')
    if not (I.is_seg(bez) and type(line).__name__ == 'Line') or type(bez).__name__ == 'Arc':
        return False
    res = I.exact_line_bezier(I.bps_of(bez), complex(line.start), complex(line.end))
    if res[0] == 'skip':
        return False
    ctx.verdict()
    n = len(list(call.ret))
    if n != res[1]:
        ctx.violation('O2/bezier_by_line_intersections/%s' % ('too-few' if n < res[1] else 'too-many'),
                      '%d crossings exist (exact rational count), %d reported' % (res[1], n),
                      {'bezier': gen.seg_spec(bez), 'line': gen.seg_spec(line), 'exact': res[2]})
    return True


PATH_EXPECT = {}   # id(path1) -> (path2 id, list of (i, tA, j, tB))


def post_path_intersect(call):
    ctx = core.CTX
    p1, other = call.args[0], call.a.get('other_curve')
    exp = PATH_EXPECT.get(id(p1))
    if exp is None or exp[0] != id(other) or call.a.get('justonemode'):
        return False
    ctx.verdict()
    items = list(call.ret)
    for i, tA, j, tB in exp[1]:
        near = [it for it in items if it[0][1] is p1[i] and it[1][1] is other[j]
                and abs(it[0][2] - tA) <= 1e-4 and abs(it[1][2] - tB) <= 1e-4]
        if len(near) != 1:
            kind = 'missed' if not near else 'reported-%d-times' % len(near)
            ctx.violation('Path.intersect/%s' % kind,
                          'a certified crossing strictly inside segment %d of path1 and %d of path2 is %s' % (i, j, kind),
                          {'p1': gen.path_spec(p1), 'p2': gen.path_spec(other), 'expected': [i, tA, j, tB],
                           'reported': [[it[0][2], it[1][2]] for it in items][:8]})
            break
    return True


def install(ctx):
    import svgpathtools.path as P
    import svgpathtools.bezier as B
    for cls in (P.Line, P.QuadraticBezier, P.CubicBezier, P.Arc):
        monitor.install(cls, 'intersect', post=post_seg_intersect)
    monitor.install(B, 'bezier_by_line_intersections', post=post_bbl)
    monitor.install(P.Path, 'intersect', post=post_path_intersect)


# --------------------------------------------------------------------------
def certified(sa, sb, tA, tB):
    """independent sweep: the crossing near (tA,tB) exists and no other lies within 0.05 in either parameter"""
    A, B = gen.seg(sa), gen.seg(sb)
    with monitor.suspended():
        xs = I.polyline_crossings(A, B)
    near = [x for x in xs if abs(x[0] - tA) < 5e-3 and abs(x[1] - tB) < 5e-3]
    close = [x for x in xs if (abs(x[0] - tA) < 0.05 or abs(x[1] - tB) < 0.05) and x not in near]
    return len(near) >= 1 and not close, xs


def cases(ctx):
    rng = ctx.rng
    n = TIERS[ctx.tier]['random'] // ctx.nshards
    kinds = 'LQCA'
    for i in range(n):
        ka, kb = kinds[i % 4], kinds[(i // 4) % 4]
        scale = 10.0 ** rng.uniform(-1, 3)
        cfg = rng.choice(['crossing', 'crossing', 'crossing', 'exact', 'exact', 'axis-aligned', 'paths', 'double'])
        if rng.random() < 0.06:
            cfg = 'ellipse-axis-line'
        elif rng.random() < 0.06:
            cfg = 'straight-curve'
        if cfg == 'straight-curve':
            # a straight "curve" (control points evenly spaced on the chord up to rounding: polylines stored as
            # curves, degree-elevated lines) crossed by an oblique line: the second difference is a rounding residue
            p0, p1 = gen.scaled_point(rng, scale), gen.scaled_point(rng, scale)
            if p0 == p1:
                continue
            if rng.random() < 0.6:
                sa = ['Q'] + [[z.real, z.imag] for z in (p0, (p0 + p1) / 2, p1)]
            else:
                sa = ['C'] + [[z.real, z.imag] for z in (p0, p0 + (p1 - p0) / 3, p0 + 2 * (p1 - p0) / 3, p1)]
            x = p0 + (p1 - p0) * rng.uniform(0.1, 0.9)
            d = (p1 - p0) / abs(p1 - p0) * cmath.exp(1j * rng.choice([-1, 1]) * rng.uniform(0.3, 1.5)) * abs(p1 - p0)
            v = rng.uniform(0.15, 0.85)
            q0, q1 = x - d * v, x + d * (1 - v)
            sb = ['L', [q0.real, q0.imag], [q1.real, q1.imag]]
            if rng.random() < 0.5:
                sa, sb = sb, sa
            yield {'kind': 'axis', 'a': sa, 'b': sb, 'cls': ['cfg:straight-curve']}
            continue
        if cfg == 'ellipse-axis-line':
            # an exactly vertical or horizontal line through an unrotated (0 / 90 / 180 degrees) elliptical arc
            c = gen.scaled_point(rng, scale)
            rx, ry = scale * rng.uniform(0.3, 2), scale * rng.uniform(0.3, 2)
            rot = rng.choice([0, 0, 0.0, 90, 180, -90])
            a0 = rng.uniform(0, 2 * math.pi)
            a1 = a0 + rng.uniform(0.5, 1.9) * math.pi
            w = cmath.exp(1j * math.radians(rot))

            def on(th):
                return c + w * complex(rx * math.cos(th), ry * math.sin(th))
            st, en = on(a0), on(a1)
            sa = ['A', [st.real, st.imag], [rx, ry], rot, (a1 - a0) > math.pi, True, [en.real, en.imag]]
            mid = on(rng.uniform(a0, a1))
            ext = 3 * max(rx, ry)
            if rng.random() < 0.5:
                sb = ['L', [mid.real, c.imag - ext], [mid.real, c.imag + ext]]
            else:
                sb = ['L', [c.real - ext, mid.imag], [c.real + ext, mid.imag]]
            if rng.random() < 0.5:
                sb = ['L', sb[2], sb[1]]
            if rng.random() < 0.5:
                sa, sb = sb, sa
            yield {'kind': 'double', 'a': sa, 'b': sb, 'any_count': True, 'cls': ['cfg:ellipse-axis-line']}
            continue
        if cfg == 'crossing':
            simple = (ka == 'A' and kb == 'A')
            made = I.make_crossing(rng, ka, kb, scale, simple_arcs=simple)
            if made is None:
                continue
            sa, sb, tA, tB = made
            yield {'kind': 'crossing', 'a': sa, 'b': sb, 'tA': tA, 'tB': tB, 'cls': ['cfg:crossing', 'pair:%s%s' % (ka, kb)]}
        elif cfg == 'double':
            # a shallow parabola dipping through a nearly straight curve: two crossings 1e-3..5e-2 apart
            ka2, kb2 = rng.choice('QC'), rng.choice('QC')
            L = scale
            wig = L * rng.uniform(-0.02, 0.02)
            if ka2 == 'C':
                sa = ['C', [0.0, 0.0], [L / 3, wig], [2 * L / 3, -wig], [L, 0.0]]
            else:
                sa = ['Q', [0.0, 0.0], [L / 2, wig], [L, 0.0]]
            x0 = L * rng.uniform(0.3, 0.7)
            half = L * 10.0 ** rng.uniform(-3, -1.4)          # half distance between the crossings
            W = half * rng.uniform(2, 5)       # a small, tightly curved B: the crossings are transversal, close on A, far apart on B
            depth = rng.uniform(0.3, 1.0)
            # parabola y = c*((x-x0)^2 - half^2), c chosen so that the ends are at height depth*W
            c = depth * W / (W * W - half * half)
            y_end = c * (W * W - half * half)
            y_mid_ctrl = -2 * c * W * W + y_end - 2 * c * 0 - 0   # quadratic through ends with apex below
            # control point of the quadratic bezier: apex value = c*(-half^2); P1.y = 2*apex - y_end
            apex = -c * half * half
            if kb2 == 'Q':
                sb = ['Q', [x0 - W, y_end], [x0, 2 * apex - y_end], [x0 + W, y_end]]
            else:
                p1y = 2 * apex - y_end
                sb = ['C', [x0 - W, y_end], [x0 - W / 3, y_end + 2 * (p1y - y_end) / 3],
                      [x0 + W / 3, y_end + 2 * (p1y - y_end) / 3], [x0 + W, y_end]]
            ang = rng.uniform(0, 2 * math.pi)
            off = gen.scaled_point(rng, scale)
            sa = I.shift_spec(I.rotate_spec(sa, ang, 0j), off)
            sb = I.shift_spec(I.rotate_spec(sb, ang, 0j), off)
            if rng.random() < 0.5:
                sa, sb = sb, sa
            yield {'kind': 'double', 'a': sa, 'b': sb, 'cls': ['cfg:double']}
        elif cfg == 'exact':
            kb2 = rng.choice('LQCC')
            c = gen.scaled_point(rng, scale)
            sb = I.rand_seg_spec(rng, kb2, scale, c)
            # a line through the bezier's extent, sometimes nearly tangent to two close crossings
            B = gen.seg(sb)
            with monitor.suspended():
                p1, p2 = complex(B.point(rng.uniform(0.1, 0.9))), complex(B.point(rng.uniform(0.1, 0.9)))
            if p1 == p2:
                continue
            d = (p2 - p1)
            ext = rng.uniform(0.2, 3)
            off = 1j * d / abs(d) * scale * rng.choice([0, 0, 10.0 ** rng.uniform(-6, -1)])
            q0, q1 = p1 - ext * d + off, p2 + ext * d + off
            sa = ['L', [q0.real, q0.imag], [q1.real, q1.imag]]
            if rng.random() < 0.5:
                sa, sb = sb, sa
            yield {'kind': 'pair', 'a': sa, 'b': sb, 'cls': ['cfg:exact', 'bez:' + kb2]}
        elif cfg == 'axis-aligned':
            x0, y0 = rng.uniform(-scale, scale), rng.uniform(-scale, scale)
            L = scale * rng.uniform(0.5, 2)
            th = sorted(rng.uniform(0.05, 0.95) for _ in range(2))
            ha = [complex(x0 + L * t, y0) for t in (0, th[0], th[1], 1)]
            u = rng.uniform(0.15, 0.85)
            xv = x0 + L * u
            tv = sorted(rng.uniform(0.05, 0.95) for _ in range(2))
            v0 = rng.uniform(0.2, 0.8)
            va = [complex(xv, y0 - L * v0 + L * t) for t in (0, tv[0], tv[1], 1)]
            sa = ['C'] + [[z.real, z.imag] for z in ha]
            kind = rng.choice('CQL')
            sb = {'C': ['C'] + [[z.real, z.imag] for z in va],
                  'Q': ['Q'] + [[z.real, z.imag] for z in (va[0], va[1], va[3])],
                  'L': ['L', [va[0].real, va[0].imag], [va[3].real, va[3].imag]]}[kind]
            swap = rng.random() < 0.5
            if swap:
                sa, sb = sb, sa
            yield {'kind': 'axis', 'a': sa, 'b': sb, 'cls': ['cfg:axis-aligned', 'other:' + kind]}
        else:
            # two paths assembled around constructed crossings
            segs1, segs2, exp = [], [], []
            ok = True
            for q in range(rng.randint(1, 3)):
                made = I.make_crossing(rng, rng.choice('LQC'), rng.choice('LQC'), scale)
                if made is None:
                    ok = False
                    break
                sa, sb, tA, tB = made
                dz = complex(q * 10 * scale, 0)
                segs1.append(I.shift_spec(sa, dz))
                segs2.append(I.shift_spec(sb, dz))
                exp.append([len(segs1) - 1, tA, len(segs2) - 1, tB])
            if not ok:
                continue
            yield {'kind': 'paths', 'p1': segs1, 'p2': segs2, 'exp': exp, 'cls': ['cfg:paths']}


def run_case(ctx, case):
    ctx.branch(case['cls'][0])
    EXPECT.clear()
    PATH_EXPECT.clear()
    if case['kind'] == 'crossing':
        ok, xs = certified(case['a'], case['b'], case['tA'], case['tB'])
        if not ok:
            raise core.Skip('crossing not isolated (independent sweep)')
        a, b = gen.seg(case['a']), gen.seg(case['b'])
        if a == b:
            raise core.Skip('equal segments')
        for x in (a, b):
            if type(x).__name__ == 'Arc' and not x.sweep:
                ctx.branch('arc:sweep=False')
        EXPECT[(id(a), id(b))] = (case['tA'], case['tB'])
        try:
            a.intersect(b)
        except Exception as e:   # noqa
            if I.general_arcs(a, b):
                raise core.Skip('general arc-arc pair raised (documented)')
            raise
        finally:
            EXPECT.clear()
    elif case['kind'] == 'double':
        a, b = gen.seg(case['a']), gen.seg(case['b'])
        with monitor.suspended():
            xs = I.polyline_crossings(a, b, n=4096)
            ok = len(xs) == 2 and abs(xs[0][0] - xs[1][0]) >= 1e-3 and abs(xs[0][1] - xs[1][1]) >= 1e-3 and \
                all((I.crossing_angle(a, x[0], b, x[1]) or 0) >= 6 for x in xs)
            if case.get('any_count'):
                ok = 1 <= len(xs) <= 2 and all((I.crossing_angle(a, x[0], b, x[1]) or 0) >= 6 for x in xs) and \
                    all(1e-3 < u < 1 - 1e-3 for x in xs for u in x) and \
                    (len(xs) == 1 or (abs(xs[0][0] - xs[1][0]) >= 1e-3 and abs(xs[0][1] - xs[1][1]) >= 1e-3))
        if not ok:
            raise core.Skip('double crossing not certified (sweep)')
        MULTI[(id(a), id(b))] = [list(x) for x in xs]
        try:
            a.intersect(b)
        finally:
            MULTI.clear()
    elif case['kind'] in ('pair', 'axis'):
        a, b = gen.seg(case['a']), gen.seg(case['b'])
        if a == b:
            raise core.Skip('equal segments')
        if case['kind'] == 'axis':
            # the crossing is known by construction: horizontal piece at y0 meets the vertical piece at xv
            with monitor.suspended():
                xs = I.polyline_crossings(a, b)
            if len(xs) == 1:
                EXPECT[(id(a), id(b))] = xs[0]
        try:
            a.intersect(b)
        finally:
            EXPECT.clear()
    else:
        import svgpathtools.path as P
        p1, p2 = gen.path(case['p1']), gen.path(case['p2'])
        exp = []
        for i, tA, j, tB in case['exp']:
            ok, xs = certified(case['p1'][i], case['p2'][j], tA, tB)
            if ok:
                exp.append((i, tA, j, tB))
        if not exp:
            raise core.Skip('no certified crossing in the path pair')
        PATH_EXPECT[id(p1)] = (id(p2), exp)
        try:
            p1.intersect(p2)
        finally:
            PATH_EXPECT.clear()


def crash_key(ctx, case, e, site):
    return 'crash/%s@%s/%s' % (type(e).__name__, site, case['cls'][0])


REGISTER = True
TECHNIQUE = 'runtime monitors on intersect/bezier_by_line_intersections/Path.intersect with two independent ground truths: driver-constructed crossings certified isolated by a polyline sweep, and exact rational (Sturm) crossing counts for Line x Bezier pairs on every call'
LEVEL_TEXT = ('Completeness is decided against ground truth: (O1) for pairs built through a common point at >= 6 degrees and certified isolated by an '
              'independent dense sweep, exactly one reported pair must lie within 1e-4 of the true parameters - all 16 type pairs, both sweep '
              'directions, rotated arcs against Beziers; (O2) for every Line x Line/Bezier call in general position the number of reported pairs must '
              'equal the exact rational crossing count, including calls nested in Path.intersect; path pairs must report each certified interior '
              'crossing once.')
LEVEL_NOTE = 'Trusts vt/ref/exact.py and the polyline sweep; pairs not in general position are skipped (counted in the evidence); general arc-arc pairs excluded (documented limitation).'
