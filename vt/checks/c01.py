"""C01 - Path.d() output parses back to the same path, under every option.

Monitor : post-condition on the real Path.d (fires for driver calls and for
          every internal call: wsvg/disvg, Document.add_path, the test-suite).
Oracle  : re-parse the returned string with the real parse_path (monitors
          suspended) and compare segment-wise with the path that was serialised.
"""
import itertools
import math

from .. import core, gen, monitor

PROP = 'C01'
CONFIGS = ['scipy']
DECIDING = ['Path.d']
ANCHORED = ['Path.d', 'Path._parse_path', 'Path._tokenize_path', 'is_smooth_from', 'Arc.__init__',
            'Arc._parameterize']
RULE = ('cases = paths (grid over type sequences x closure x coordinate palette, plus seeded random '
        'classes); each case is serialised under all 8 option combinations and every returned string is '
        're-parsed and compared by the Path.d post-condition; a case is distinct by its full segment '
        'spec and non-trivial if at least one post-condition verdict was reached for it')
ASSUMPTIONS = ['parse_path is the inverse under test together with d(): a defect in the parser shows '
               'here as well (C02 checks the parser against the SVG grammar independently)',
               'no zero-length Line segments are generated (excluded by the statement)']
TIERS = {
    'quick': {'shards': 14, 'grid_len': 3, 'random': 14000, 'timeout': 600, 'min_cases': 5000,
              'require_branches': ['out:S', 'out:T', 'out:Z', 'out:multiM', 'cls:closed-by-curve',
                                   'cls:rel', 'arc:enlarged']},
    'thorough': {'shards': 14, 'grid_len': 4, 'random': 400000, 'timeout': 3000, 'min_cases': 100000,
                 'require_branches': ['out:S', 'out:T', 'out:Z', 'out:multiM', 'cls:closed-by-curve',
                                      'cls:rel', 'arc:enlarged']},
}
EPS = gen.EPS
OPTS = list(itertools.product([False, True], repeat=3))   # useSandT, use_closed_attrib, rel


# --------------------------------------------------------------------------
def radius_check(a):
    """Lambda of F.6.6 recomputed from the arc's *stored* radius (math only)"""
    phi = math.radians(a.rotation)
    dx = (a.start.real - a.end.real) / 2
    dy = (a.start.imag - a.end.imag) / 2
    x1 = math.cos(phi) * dx + math.sin(phi) * dy
    y1 = -math.sin(phi) * dx + math.cos(phi) * dy
    rx, ry = a.radius.real, a.radius.imag
    return (x1 / rx) ** 2 + (y1 / ry) ** 2


def closure_class(p):
    n = len(p)
    cont = all(p[i].end == p[i + 1].start for i in range(n - 1))
    if not cont:
        return 'multi'
    if p[0].start != p[-1].end:
        return 'open'
    last = type(p[-1]).__name__
    revisit = any(s.start == p[-1].end for s in p[1:])
    base = 'closed-by-line' if last == 'Line' else 'closed-by-curve'
    return base + ('+revisit' if revisit else '')


def optname(useSandT, use_closed_attrib, rel):
    return '+'.join(n for n, f in (('S', useSandT), ('Z', use_closed_attrib), ('rel', rel)) if f) or 'plain'


def def_points(s):
    n = type(s).__name__
    if n == 'Line':
        return [s.start, s.end]
    if n == 'QuadraticBezier':
        return [s.start, s.control, s.end]
    if n == 'CubicBezier':
        return [s.start, s.control1, s.control2, s.end]
    return [s.start, s.end]


def compare(p, q, rel, self_closed):
    """returns None or (kind, detail).  p = original, q = re-parsed."""
    n = len(p)
    extra_ok = False
    if len(q) == n + 1 and rel and self_closed and type(p[-1]).__name__ != 'Line' \
            and type(q[-1]).__name__ == 'Line':
        extra_ok = True
    elif len(q) != n:
        return ('count', 'original has %d segments, re-parsed has %d' % (n, len(q)))
    acc = 0.0         # running  sum(|d_j| + |e_j|)  for the relative-form bound
    for k in range(n):
        a, b = p[k], q[k]
        if type(a) is not type(b):
            return ('type', 'segment %d: %s became %s' % (k, type(a).__name__, type(b).__name__))
        pa, pb = def_points(a), def_points(b)
        if rel:
            st = complex(a.start)
            acc += max(abs(complex(x) - st) for x in pa) + abs(complex(a.end)) + abs(st)
            for x, y in zip(pa, pb):
                tol = 4 * EPS * (acc + abs(complex(x)))
                if abs(complex(x) - complex(y)) > tol:
                    return ('points', 'segment %d: point %r re-parsed as %r (tol %.3g)' % (k, x, y, tol))
            ptol = 4 * EPS * (acc + abs(complex(a.end)))
        else:
            for x, y in zip(pa, pb):
                if not (x == y):
                    return ('points', 'segment %d: point %r re-parsed as %r' % (k, x, y))
            ptol = 0.0
        if type(a).__name__ == 'Arc':
            if a.large_arc != b.large_arc or a.sweep != b.sweep:
                return ('arcflags', 'segment %d: flags (%s,%s) became (%s,%s)' % (
                    k, a.large_arc, a.sweep, b.large_arc, b.sweep))
            if not (a.rotation == b.rotation):
                return ('arcrot', 'segment %d: rotation %r became %r' % (k, a.rotation, b.rotation))
            if a.radius != b.radius:
                rc = radius_check(a)
                chord = abs(a.end - a.start)
                allowed = 0.0
                if rc >= 1 - 1e-9:
                    allowed = 1e-12 + (4 * ptol / chord if chord else 0.0)
                relerr = max(abs(a.radius.real - b.radius.real) / a.radius.real,
                             abs(a.radius.imag - b.radius.imag) / a.radius.imag)
                if relerr > allowed:
                    return ('arcradius', 'segment %d: radius %r became %r (radius_check=%r)' % (
                        k, a.radius, b.radius, rc))
    if extra_ok:
        x = q[-1]
        tol = 4 * EPS * (acc + abs(complex(p[0].start)))
        if abs(x.end - x.start) > tol:
            return ('added', 'closing line of length %.3g added (tol %.3g)' % (abs(x.end - x.start), tol))
        core.CTX.note('tolerated_extra_closing_line')
    return None


def post_d(call):
    ctx = core.CTX
    p = call.args[0]
    if len(p) == 0:
        return False
    a = call.a
    useSandT, zc, rel = bool(a.get('useSandT')), bool(a.get('use_closed_attrib')), bool(a.get('rel'))
    # the statement excludes zero-length Lines
    for s in p:
        if type(s).__name__ == 'Line' and s.start == s.end:
            ctx.skip('zero-length Line in path')
            return False
    # Arc arithmetic squares radii and half-chords: magnitudes whose squares
    # leave the normal double range are not "rounding" any more
    for sg in p:
        if type(sg).__name__ == 'Arc':
            ms = [abs(sg.radius.real), abs(sg.radius.imag), abs(sg.end - sg.start)]
            if not all(math.isfinite(x) for x in ms) or min(ms) < 1e-140 or max(ms) > 1e140 or \
                    max(abs(sg.start), abs(sg.end)) > 1e140:
                ctx.skip('arc magnitudes outside 1e-140..1e140 (squares under/overflow)')
                return False
    if rel:
        # relative form: a Line/Arc chord that is not well above the rounding of the
        # emitted differences can legitimately collapse (start == end after re-adding)
        acc = 0.0
        for sg in p:
            st = complex(sg.start)
            acc += max(abs(complex(x) - st) for x in def_points(sg)) + abs(complex(sg.end)) + abs(st)
            if type(sg).__name__ in ('Line', 'Arc') and \
                    abs(complex(sg.end) - st) <= 1024 * EPS * (acc + abs(complex(sg.end))):
                ctx.skip('rel: Line/Arc chord within rounding of the emitted differences')
                return False
    s = call.ret
    from svgpathtools import parse_path
    cc = closure_class(p)
    on = optname(useSandT, zc, rel)
    ctx.verdict()
    up = s.upper()
    for letter in 'STZ':
        if letter in up:
            ctx.branch('out:' + letter)
    if up.count('M') > 1:
        ctx.branch('out:multiM')
    if 'E' in up:
        ctx.branch('out:exponent')
    ctx.branch('cls:' + cc.split('+')[0])
    if rel:
        ctx.branch('cls:rel')
    try:
        q = parse_path(s)
    except Exception as e:   # noqa
        ctx.violation('unparsable/%s/%s' % (cc, on), 'd() output cannot be parsed: %s: %s' % (
            type(e).__name__, str(e)[:100]), {'d': s[:400]})
        return True
    self_closed = zc and cc.startswith('closed')
    r = compare(p, q, rel, self_closed)
    if r is not None:
        kind, detail = r
        ctx.violation('%s/%s/%s' % (kind, cc, on), 'd(%s) does not round-trip (%s): %s' % (on, kind, detail),
                      {'d': s[:400], 'detail': detail})
    return True


def install(ctx):
    import svgpathtools.path as P
    monitor.install(P.Path, 'd', post=post_d)


# --------------------------------------------------------------------------
# workload

def _smooth_chain(rng, kind, n, cls, exact=True):
    """n consecutive Q or C segments whose joints are S/T-smooth"""
    out = []
    p = gen.cpoint(rng, cls)
    prevc = None
    for i in range(n):
        e = gen.distinct_point(rng, cls, [p])
        if kind == 'C':
            if prevc is None:
                c1 = p if rng.random() < 0.5 else gen.cpoint(rng, cls)
            else:
                c1 = p + (p - prevc)
                if not exact:
                    import numpy as np
                    d = p - prevc
                    cands = [complex(np.nextafter(c1.real, c1.real + sx), np.nextafter(c1.imag, c1.imag + sy))
                             for sx in (-1, 0, 1) for sy in (-1, 0, 1)]
                    cands = [c for c in cands if (c - p) == d]
                    c1 = rng.choice(cands) if cands else c1
            c2 = gen.cpoint(rng, cls)
            out.append(['C', [p.real, p.imag], [c1.real, c1.imag], [c2.real, c2.imag], [e.real, e.imag]])
            prevc = c2
        else:
            if prevc is None:
                c = p if rng.random() < 0.5 else gen.cpoint(rng, cls)
            else:
                c = p + (p - prevc)
                if not exact:
                    import numpy as np
                    d = p - prevc
                    cands = [complex(np.nextafter(c.real, c.real + sx), np.nextafter(c.imag, c.imag + sy))
                             for sx in (-1, 0, 1) for sy in (-1, 0, 1)]
                    cands = [x for x in cands if (x - p) == d]
                    c = rng.choice(cands) if cands else c
            out.append(['Q', [p.real, p.imag], [c.real, c.imag], [e.real, e.imag]])
            prevc = c
        p = e
    return out


def _has_zero_line(specs):
    return any(s[0] == 'L' and s[1] == s[2] for s in specs)


def _arc_ok(specs):
    return all(s[0] != 'A' or s[1] != s[6] for s in specs)


def cases(ctx):
    rng = ctx.rng
    plan = TIERS[ctx.tier]
    idx = 0
    # ---- exhaustive grid ------------------------------------------------
    for L in range(1, plan['grid_len'] + 1):
        for kinds in itertools.product('LQCA', repeat=L):
            for closure in ('open', 'line', 'curve', 'multi'):
                for pal in ('int', 'half', 'rand'):
                    idx += 1
                    if idx % ctx.nshards != ctx.shard:
                        continue
                    r = __import__('random').Random('%s/grid/%d/%d' % (PROP, ctx.seed, idx))
                    if closure == 'multi':
                        cut = max(1, L // 2)
                        specs = gen.rand_path_specs(r, kinds[:cut], pal) + \
                            (gen.rand_path_specs(r, kinds[cut:], pal, rng.choice(['open', 'curve']))
                             if kinds[cut:] else gen.rand_path_specs(r, 'L', pal))
                    else:
                        if closure == 'curve' and L == 1:
                            continue
                        specs = gen.rand_path_specs(r, kinds, pal, closure)
                    if _has_zero_line(specs) or not _arc_ok(specs):
                        continue
                    yield {'kind': 'path', 'segs': specs, 'cls': ['grid', 'grid:' + closure, 'pal:' + pal]}
    # ---- seeded random classes -----------------------------------------
    n = plan['random'] // ctx.nshards
    coordcls = ['int', 'half', 'rand', 'tiny', 'huge', 'mixed', 'expfmt', 'dyadic']
    for i in range(n):
        c = rng.random()
        cc = rng.choice(coordcls)
        if c < 0.25:
            kinds = [rng.choice('LQCA') for _ in range(rng.randint(1, 7))]
            clo = rng.choice(['open', 'line', 'curve'])
            if clo == 'curve' and len(kinds) == 1:
                clo = 'open'
            specs = gen.rand_path_specs(rng, kinds, cc, clo)
            cls = ['random-continuous', 'clo:' + clo]
        elif c < 0.4:
            specs = []
            for _ in range(rng.randint(2, 4)):
                kinds = [rng.choice('LQCA') for _ in range(rng.randint(1, 3))]
                clo = rng.choice(['open', 'line', 'curve']) if len(kinds) > 1 else 'open'
                specs += gen.rand_path_specs(rng, kinds, cc, clo)
            cls = ['several-subpaths']
        elif c < 0.55:
            # closed path that revisits its start point mid-way
            start = gen.cpoint(rng, cc)
            k1 = [rng.choice('LQC') for _ in range(rng.randint(2, 3))]
            k2 = [rng.choice('LQC') for _ in range(rng.randint(2, 3))]
            a = gen.rand_path_specs(rng, k1, cc, rng.choice(['curve', 'line']), start=start)
            b = gen.rand_path_specs(rng, k2, cc, rng.choice(['curve', 'line']), start=start)
            specs = a + b
            cls = ['closed-revisits-start']
            if rng.random() < 0.5 and a[-1][0] == b[0][0] and a[-1][0] in 'QC' and cc in ('int', 'half', 'dyadic'):
                # figure eight drawn from its crossing: the lobe that starts at the revisited point continues the
                # previous curve smoothly (exact reflection), so S/T shorthand is tempting right after the inserted moveto
                pc = complex(*a[-1][-2])
                refl = start + (start - pc)
                b[0][2] = [refl.real, refl.imag]
                cls.append('smooth-at-revisit')
        elif c < 0.75:
            kind = rng.choice('QC')
            exact = rng.random() < 0.6
            ccs = rng.choice(['dyadic', 'half', 'int']) if exact else rng.choice(['rand', 'third', 'huge'])
            specs = _smooth_chain(rng, kind, rng.randint(2, 5), ccs, exact)
            if rng.random() < 0.4:   # close it with a smooth or non-smooth curve / line
                p0 = complex(*specs[0][1])
                pe = complex(*specs[-1][-1])
                if pe != p0:
                    specs.append(gen.rand_seg_spec(rng, rng.choice(['L', kind]), pe, ccs, end=p0))
            if rng.random() < 0.3:   # preceded by a non-curve: "control == start" fallback
                p0 = complex(*specs[0][1])
                q0 = gen.distinct_point(rng, ccs, [p0])
                specs.insert(0, gen.rand_seg_spec(rng, rng.choice('LA'), q0, ccs, end=p0))
            cls = ['smooth-chain', 'smooth:' + ('exact' if exact else 'ulp')]
        elif c < 0.85:
            # arcs: exactly fitting / too small radii, odd rotations
            kinds = [rng.choice('AAL') for _ in range(rng.randint(1, 4))]
            specs = gen.rand_path_specs(rng, kinds, rng.choice(['int', 'half', 'rand', 'huge']),
                                        rng.choice(['open', 'line', 'curve']) if len(kinds) > 1 else 'open')
            cls = ['arc-heavy']
        else:
            # numpy scalars / python ints as coordinates
            kinds = [rng.choice('LQC') for _ in range(rng.randint(1, 4))]
            specs = gen.rand_path_specs(rng, kinds, 'int', rng.choice(['open', 'line']))
            mode = rng.choice(['np', 'int'])
            for s in specs:
                for j in range(1, len(s)):
                    re_, im_ = s[j]
                    if mode == 'np':
                        s[j] = {'np': [re_, im_]}
                    elif im_ == 0:
                        s[j] = int(re_)
            cls = ['scalar-types:' + mode]
        if _has_zero_line(specs) or not _arc_ok(specs):
            ctx.skip('generator produced zero-length line / arc')
            continue
        yield {'kind': 'path', 'segs': specs, 'cls': cls + ['coord:' + cc]}


def run_case(ctx, case):
    p = gen.path(case['segs'])
    for s in p:
        if type(s).__name__ == 'Arc' and radius_check_spec_enlarged(s):
            ctx.branch('arc:enlarged')
            break
    for useSandT, zc, rel in OPTS:
        p.d(useSandT=useSandT, use_closed_attrib=zc, rel=rel)


def radius_check_spec_enlarged(a):
    return radius_check(a) >= 1 - 1e-9


def crash_key(ctx, case, e, site):
    p = gen.path(case['segs']) if case.get('segs') else None
    cc = closure_class(p) if p is not None else '?'
    return 'crash/%s@%s/%s' % (type(e).__name__, site, cc)

REGISTER = True
TECHNIQUE = 'runtime monitor: post-condition on the real Path.d re-parsing every returned string; grid-enumerated + seeded random hostile paths x all 8 option combinations'
LEVEL_TEXT = ('Every call of Path.d made by the workload (and by library-internal callers) is judged by an oracle that '
              're-parses the string and compares types, flags and defining points with the statement\'s own tolerances '
              '(exact in absolute form; forward rounding bound of the emitted differences in relative form). Held on the '
              'monitored executions only: ~15k paths x 8 options (quick), ~400k x 8 (thorough), grid-exhaustive over '
              'type sequences of length <=3/4 x closure x palette.')
LEVEL_NOTE = ('Trusts the harness comparison code and Python float repr/float() round trip; parse_path is the partner under test '
              '(checked independently by C02). Inputs no workload produced are not covered.')
