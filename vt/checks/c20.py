"""C20 - smoothed_path removes kinks without moving the path.

Monitors: smoothed_path, smoothed_joint, kinks, is_differentiable.
Oracle  : tangents at joints are taken from the control points (not from the library's
          unit_tangent); closeness to the original is measured against a dense sampling of
          the input path.
"""
import math

import numpy as np

from .. import core, gen, monitor
from . import _isect as I

PROP = 'C20'
CONFIGS = ['scipy']
DECIDING = ['smoothing.smoothed_path', 'smoothing.smoothed_joint', 'smoothing.kinks']
ANCHORED = ['smoothed_path', 'smoothed_joint', 'kinks', 'is_differentiable', 'bezier_unit_tangent', 'inv_arclength',
            'crop_bezier']
RULE = ('cases = one continuous path of 2-8 Line/CubicBezier segments, open or closed, corner angles 1..179 degrees (never within 0.5 '
        'degrees of 0/180 except joints that are smooth by construction), segment lengths 0.01x-100x maxjointsize, maxjointsize in '
        '{0.1, 3, 50}, tightness in {0.1, 1, 1.99}; cubics with a control point on the joint as a separate class; single-segment '
        'paths; distinct by spec + parameters; non-trivial if the smoothed_path post-condition reached a verdict')
RULE += '; corners of 1e-4..1e-2 rad, neighbours 10..300 times shorter, short non-zero handles, closed inputs with a smooth closing joint'
ASSUMPTIONS = ['reference tangent at a segment end = direction of the nearest distinct control point',
               'distance to the original is measured against 1024 samples per input segment (slack: half the sample spacing)',
               'kinks(): a joint is a kink if the reference tangents differ by more than 2e-4 rad, not a kink below 1e-4 rad (the library\'s '
               'own tolerance 1e-8 on 1 - cos lies between); joints in between are not judged']
TIERS = {
    'quick': {'shards': 14, 'random': 2800, 'timeout': 900, 'min_cases': 1800, 'max_timeouts': 3,
              'require_branches': ['input:closed', 'input:open', 'joint:line-line', 'joint:line-curve', 'joint:curve-line',
                                   'joint:curve-curve', 'joint:already-smooth', 'input:control-point-on-joint',
                                   'input:single-segment', 'segments-shorter-than-joint', 'corner:slight', 'lengths:uneven', 'input:short-handle', 'closing-joint:smooth']},
    'thorough': {'shards': 14, 'random': 100000, 'timeout': 3400, 'min_cases': 60000, 'max_timeouts': 50,
                 'require_branches': ['input:closed', 'input:open', 'joint:line-line', 'joint:line-curve',
                                      'joint:curve-line', 'joint:curve-curve', 'joint:already-smooth',
                                      'input:control-point-on-joint', 'input:single-segment',
                                      'segments-shorter-than-joint', 'corner:slight', 'lengths:uneven', 'input:short-handle', 'closing-joint:smooth']},
}
CASE_TIMEOUT = 60


def end_tangent(seg, at_end):
    pts = [complex(p) for p in I.bps_of(seg)]
    # control points that coincide up to rounding (e.g. (1-t)*P0 + t*P0 after a de Casteljau crop of a curve
    # whose control point sits on its end point) carry no direction
    def distinct(q, base):
        return abs(q - base) > 64 * gen.EPS * (abs(q) + abs(base))
    if at_end:
        base = pts[-1]
        for q in reversed(pts[:-1]):
            if distinct(q, base):
                d = base - q
                return d / abs(d)
    else:
        base = pts[0]
        for q in pts[1:]:
            if distinct(q, base):
                d = q - base
                return d / abs(d)
    return None


def end_leg(seg, at_end):
    """length of the control-polygon leg that defines the tangent at that end"""
    pts = [complex(p) for p in I.bps_of(seg)]
    base = pts[-1] if at_end else pts[0]
    for q in (reversed(pts[:-1]) if at_end else pts[1:]):
        if abs(q - base) > 64 * gen.EPS * (abs(q) + abs(base)):
            return abs(q - base)
    return 0.0


def kink_tol(a, b):
    """2e-5 rad plus what the rounding of the control points themselves (1 ulp each) can turn the two tangents by"""
    mag = max(abs(complex(p)) for s in (a, b) for p in I.bps_of(s))
    leg = min(end_leg(a, True), end_leg(b, False))
    # 2e-5 rad: smoothed_path leaves a joint alone when its unit tangents are np.isclose (1e-8 + 1e-5 relative), and
    # the library's own kinks() calls a joint a kink only above 1.4e-4 rad; "matching unit tangents" is read at the
    # finer of the two resolutions (a 1e-6 threshold flagged input corners of 4e-6 rad that were left untouched: 3 in
    # 100 000 thorough cases)
    return 2e-5 + (16 * gen.EPS * mag / leg if leg > 0 else 0.0)


def joint_angle(a, b):
    """angle (rad) between the reference tangents at the joint a.end == b.start"""
    u, v = end_tangent(a, True), end_tangent(b, False)
    if u is None or v is None:
        return None
    c = max(-1.0, min(1.0, u.real * v.real + u.imag * v.imag))
    s = u.real * v.imag - u.imag * v.real
    return abs(math.atan2(s, c))


def in_scope(path):
    """continuous path of lines and cubics, no 180-degree reversal"""
    if len(path) == 0:
        return False
    for s in path:
        if type(s).__name__ not in ('Line', 'CubicBezier'):
            return False
        if type(s).__name__ == 'Line' and s.start == s.end:
            return False
    for a, b in zip(path, path[1:]):
        if a.end != b.start:
            return False
    joints = list(zip(path, path[1:]))
    if len(path) > 1 and path[0].start == path[-1].end:
        joints.append((path[-1], path[0]))
    for a, b in joints:
        ang = joint_angle(a, b)
        if ang is None or ang > math.radians(179.5):
            return False
    return True


def dense(path, n=1024):
    return np.concatenate([I.samples(s, n + 1) for s in path])


def dist_to(pts, cloud):
    out = np.empty(len(pts))
    for k in range(0, len(pts), 128):
        out[k:k + 128] = np.abs(pts[k:k + 128, None] - cloud[None, :]).min(axis=1)
    return out


def post_smoothed_path(call):
    ctx = core.CTX
    a = call.a
    path = a.get('path')
    mj, tight = a.get('maxjointsize', 3), a.get('tightness', 1.99)
    out = call.ret
    if len(path) == 1:
        ctx.verdict()
        ctx.branch('input:single-segment')
        if not (out is path or (len(out) == 1 and out[0] == path[0])):
            ctx.violation('single-segment-changed', 'a single-segment path was not returned unchanged')
        return True
    if not in_scope(path) or a.get('ignore_unfixable_kinks'):
        ctx.skip('input outside the statement (not a continuous line/cubic path without reversals)')
        return False
    ctx.verdict()
    closed = path[0].start == path[-1].end
    ctx.branch('input:closed' if closed else 'input:open')
    tag = 'closed' if closed else 'open'
    n = len(out)
    # continuity
    for i in range(n - 1):
        if not (out[i].end == out[i + 1].start):
            ctx.violation('discontinuous/%s' % tag, 'the smoothed path is not continuous', {'index': i, 'path': gen.path_spec(path)})
            return True
    if closed and not (out[0].start == out[-1].end):
        ctx.violation('closed-input-opened', 'the smoothed path of a closed path is not closed',
                      {'path': gen.path_spec(path), 'maxjointsize': mj, 'tightness': tight})
        return True
    if not closed and not (out[0].start == path[0].start and out[-1].end == path[-1].end):
        ctx.violation('endpoints-moved/open', 'the smoothed open path does not keep its start and end points',
                      {'path': gen.path_spec(path)})
        return True
    # no kinks
    joints = [(i, out[i], out[i + 1]) for i in range(n - 1)]
    if closed:
        joints.append((n - 1, out[-1], out[0]))
    for i, s0, s1 in joints:
        ang = joint_angle(s0, s1)
        if ang is None:
            ctx.violation('degenerate-output-segment/%s' % tag, 'an output segment has no tangent (all control points equal)',
                          {'index': i})
            return True
        if ang > kink_tol(s0, s1):
            where = 'closing-joint' if (closed and i == n - 1) else 'joint'
            ctx.violation('kink-left/%s/%s' % (tag, where),
                          'the smoothed path still has a kink of %.3g rad' % ang,
                          {'index': i, 'of': n, 'path': gen.path_spec(path), 'maxjointsize': mj, 'tightness': tight})
            return True
    # stays within maxjointsize of the original
    cloud = dense(path)
    spacing = float(np.abs(np.diff(cloud)).max())
    t = np.linspace(0, 1, 64)
    pts = np.concatenate([np.asarray(s.point(t), dtype=complex) if type(s).__name__ != 'Line'
                          else complex(s.start) + (complex(s.end) - complex(s.start)) * t for s in out])
    far = float(dist_to(pts, cloud).max())
    if far > mj + spacing:
        ctx.violation('moved-too-far/%s' % tag, 'a point of the smoothed path is %.3g away from the original (maxjointsize %.3g)' % (far, mj),
                      {'path': gen.path_spec(path), 'maxjointsize': mj, 'tightness': tight})
        return True
    # joints that were already smooth keep their point and tangent
    in_joints = list(zip(path, path[1:]))
    if closed:
        in_joints.append((path[-1], path[0]))
    out_ends = {complex(s.end): s for s in out}
    for a0, b0 in in_joints:
        ang = joint_angle(a0, b0)
        if ang is not None and ang <= 1e-9:
            ctx.branch('joint:already-smooth')
            q = complex(a0.end)
            hit = out_ends.get(q)
            if hit is None:
                ctx.violation('smooth-joint-moved/%s' % tag, 'a joint that was already smooth is no longer a joint of the output',
                              {'joint': repr(q), 'path': gen.path_spec(path)})
                return True
            tu = end_tangent(hit, True)
            tw = end_tangent(a0, True)
            if abs(tu - tw) > 1e-6:
                ctx.violation('smooth-joint-tangent-changed/%s' % tag, 'the tangent at an already smooth joint changed')
                return True
    return True


def exc_smoothed_path(call):
    ctx = core.CTX
    path = call.a.get('path')
    if len(path) <= 1 or not in_scope(path):
        return False
    ctx.verdict()
    closed = path[0].start == path[-1].end
    ctx.violation('raises/%s/%s' % (type(call.exc).__name__, 'closed' if closed else 'open'),
                  'smoothed_path raised %s on a path within the statement: %s' % (type(call.exc).__name__, str(call.exc)[:100]),
                  {'path': gen.path_spec(path), 'maxjointsize': call.a.get('maxjointsize'), 'tightness': call.a.get('tightness')})
    return True


def post_smoothed_joint(call):
    ctx = core.CTX
    s0, s1 = call.a.get('seg0'), call.a.get('seg1')
    mj = call.a.get('maxjointsize', 3)
    if I.bps_of(s0) is None or I.bps_of(s1) is None or type(s0).__name__ == 'QuadraticBezier' or \
            type(s1).__name__ == 'QuadraticBezier':
        return False
    ang = joint_angle(s0, s1)
    if ang is None or ang > math.radians(179.5):
        return False
    kind = '%s-%s' % ('line' if type(s0).__name__ == 'Line' else 'curve', 'line' if type(s1).__name__ == 'Line' else 'curve')
    ctx.branch('joint:' + kind)
    a, elbow, b = call.ret
    chain = [a] + list(elbow) + [b]
    ctx.verdict()
    if not (a.start == s0.start and b.end == s1.end):
        ctx.violation('joint/%s/outer-ends-moved' % kind, 'smoothed_joint moved the outer end points of the two segments')
        return True
    for i in range(len(chain) - 1):
        if not (chain[i].end == chain[i + 1].start):
            ctx.violation('joint/%s/discontinuous' % kind, 'the pieces returned by smoothed_joint do not join', {'index': i})
            return True
        g = joint_angle(chain[i], chain[i + 1])
        if g is None or g > kink_tol(chain[i], chain[i + 1]):
            ctx.violation('joint/%s/kink' % kind, 'the elbow does not join smoothly (%.3g rad)' % (g if g is not None else -1),
                          {'index': i, 'seg0': gen.seg_spec(s0), 'seg1': gen.seg_spec(s1)})
            return True
    return True


def post_kinks(call):
    ctx = core.CTX
    path = call.a.get('path')
    if len(path) == 0 or any(I.bps_of(s) is None for s in path) or \
            any(a.end != b.start for a, b in zip(path, path[1:])):
        return False
    closed = path[0].start == path[-1].end
    want, unsure = [], []
    for idx in range(len(path)):
        if idx == 0 and not closed:
            continue
        ang = joint_angle(path[(idx - 1) % len(path)], path[idx])
        if ang is None:
            unsure.append(idx)
        elif ang > 2e-4:
            want.append(idx)
        elif ang >= 1e-4:
            unsure.append(idx)
    got = list(call.ret)
    ctx.verdict()
    if [i for i in got if i not in unsure] != [i for i in want if i not in unsure]:
        ctx.violation('kinks/%s' % ('closed' if closed else 'open'), 'kinks() differs from the reference kink list',
                      {'got': got, 'want': want, 'unsure': unsure, 'path': gen.path_spec(path)})
    return True


def install(ctx):
    import svgpathtools.smoothing as S
    import svgpathtools.paths2svg as W

    def no_display(*a, **k):
        raise RuntimeError('vt: smoothing tried to display an SVG')
    S.disvg = no_display
    monitor.install(S, 'smoothed_path', post=post_smoothed_path, on_exc=exc_smoothed_path)
    monitor.install(S, 'smoothed_joint', post=post_smoothed_joint)
    monitor.install(S, 'kinks', post=post_kinks)


# --------------------------------------------------------------------------
def _gen_path(rng, mj):
    n = rng.randint(2, 8)
    closed = rng.random() < 0.45 and n >= 3
    scale = mj * 10.0 ** rng.uniform(-1.5, 2)
    pts = []
    p = complex(rng.uniform(-10, 10), rng.uniform(-10, 10))
    heading = rng.uniform(0, 2 * math.pi)
    slight = uneven = False
    for i in range(n + 1):
        pts.append(p)
        turn = math.radians(rng.choice([-1, 1]) * rng.uniform(1, 170))
        if rng.random() < 0.12:
            # a slight but real corner (well above the 1e-5 at which unit tangents count as equal)
            turn = rng.choice([-1, 1]) * 10.0 ** rng.uniform(-4, -2)
            slight = True
        heading += turn
        step = rng.uniform(0.3, 3)
        if rng.random() < 0.12:
            # a segment far shorter (or far longer) than its neighbours: the elbow must fit the shorter one
            step *= 10.0 ** rng.uniform(-2.5, -1)
            uneven = True
        p = p + scale * step * complex(math.cos(heading), math.sin(heading))
    if closed:
        pts[-1] = pts[0]
    specs = []
    cls = set()
    prev_c2 = None
    for i in range(n):
        a, b = pts[i], pts[i + 1]
        if a == b:
            return None, None
        kind = rng.choice('LCC')
        L = abs(b - a)
        if L < mj:
            cls.add('segments-shorter-than-joint')
        if kind == 'L':
            specs.append(['L', [a.real, a.imag], [b.real, b.imag]])
            prev_c2 = None
            prev_dir = (b - a) / L
        else:
            d = (b - a) / L
            c1 = a + d * L / 3 + 1j * d * L * rng.uniform(-0.3, 0.3)
            c2 = a + 2 * d * L / 3 + 1j * d * L * rng.uniform(-0.3, 0.3)
            m = rng.random()
            if m < 0.12:
                c1 = a
                cls.add('input:control-point-on-joint')
            elif m < 0.24:
                c2 = b
                cls.add('input:control-point-on-joint')
            elif m < 0.32:
                # a short (but non-zero) handle at the joint: 1e-3 .. 1e-1 of the joint size
                hl = mj * 10.0 ** rng.uniform(-3, -1)
                if rng.random() < 0.5:
                    c1 = a + (c1 - a) / abs(c1 - a) * hl
                else:
                    c2 = b + (c2 - b) / abs(c2 - b) * hl
                cls.add('input:short-handle')
            elif m < 0.5 and specs:
                # already smooth joint: leave the previous segment's end direction
                prev = specs[-1]
                pe = complex(*prev[-1])
                pq = complex(*prev[-2])
                if pe != pq:
                    dirn = (pe - pq) / abs(pe - pq)
                    c1 = a + dirn * L * rng.uniform(0.2, 0.5)
                    cls.add('smooth-by-construction')
            specs.append(['C', [a.real, a.imag], [c1.real, c1.imag], [c2.real, c2.imag], [b.real, b.imag]])
    if closed and specs[-1][0] == 'C' and rng.random() < 0.4:
        # the closing joint is already smooth: the last segment arrives in the direction the first one leaves
        f0 = specs[0]
        d0 = complex(*f0[2]) - complex(*f0[1])
        if d0 == 0 and len(f0) > 3:
            d0 = complex(*f0[3]) - complex(*f0[1])
        if d0 != 0:
            b = complex(*specs[-1][4])
            Ll = abs(b - complex(*specs[-1][1]))
            c2 = b - d0 / abs(d0) * Ll * rng.uniform(0.2, 0.5)
            specs[-1][3] = [c2.real, c2.imag]
            cls.add('closing-joint:smooth')
    if slight:
        cls.add('corner:slight')
    if uneven:
        cls.add('lengths:uneven')
    return specs, sorted(cls) + (['closed'] if closed else ['open'])


def cases(ctx):
    rng = ctx.rng
    n = TIERS[ctx.tier]['random'] // ctx.nshards
    for i in range(n):
        mj = rng.choice([0.1, 3, 50])
        tight = rng.choice([0.1, 1, 1.99])
        if rng.random() < 0.03:
            s = gen.rand_seg_spec(rng, rng.choice('LC'), gen.cpoint(rng, 'rand'), 'rand')
            if s[0] == 'L' and s[1] == s[2]:
                continue
            yield {'kind': 'path', 'segs': [s], 'mj': mj, 'tight': tight, 'cls': ['single-segment']}
            continue
        specs, cls = _gen_path(rng, mj)
        if specs is None:
            continue
        yield {'kind': 'path', 'segs': specs, 'mj': mj, 'tight': tight, 'cls': cls}


def run_case(ctx, case):
    import svgpathtools.smoothing as S
    p = gen.path(case['segs'])
    for c in case['cls']:
        if c in ('input:control-point-on-joint', 'segments-shorter-than-joint', 'corner:slight', 'lengths:uneven',
                 'input:short-handle', 'closing-joint:smooth'):
            ctx.branch(c)
    if len(p) > 1 and not in_scope(p):
        raise core.Skip('generated path outside the statement (reversal or degenerate)')
    S.kinks(p) if p.iscontinuous() and (len(p) > 0) else None
    try:
        out = S.smoothed_path(p, maxjointsize=case['mj'], tightness=case['tight'])
    except Exception:
        return            # judged by the exception observer
    if len(out) > 1 and all(I.bps_of(s) is not None for s in out) and out.iscontinuous():
        S.kinks(out)
        try:
            S.is_differentiable(out) if out[0].start == out[-1].end else None
        except Exception:
            pass


def crash_key(ctx, case, e, site):
    return 'crash/%s@%s' % (type(e).__name__, site)


REGISTER = True
TECHNIQUE = 'runtime monitors on smoothed_path/smoothed_joint/kinks: continuity, control-point tangents at every joint (incl. the closing joint), end points / closedness, distance to a dense sampling of the input, preservation of already smooth joints'
LEVEL_TEXT = ('Every smoothed_path call of the workload is judged from the control points of its output: exactly joined pieces, tangents at every joint '
              '(including the closing joint of closed inputs) within 2e-5 rad (the resolution at which the library itself calls two unit tangents equal), unchanged end points for open inputs, closed outputs for closed inputs, '
              'all sampled output points within maxjointsize of the input, already smooth joints kept, single segments returned unchanged; every '
              'smoothed_joint (also the nested ones of the curve-curve construction) must return a smoothly joined chain; kinks() is compared with a reference kink list.')
LEVEL_NOTE = 'Tangents are reference tangents from control points; distance uses 1024 samples per input segment; paths with 180-degree reversals are outside the statement.'
