"""C09 - reversed/split/cropped trace the same curve under the documented parameter map.

Monitors: reversed / split / cropped of the four segment classes, crop_bezier,
          Path.reversed, Path.cropped.
Oracle  : pointwise identities at 11 parameters against the *original* object's
          own point(); path-level: end points, exact joints, membership/order of the
          untouched interior segments, and length.
"""
import math

import numpy as np

from .. import core, gen, monitor

PROP = 'C09'
CONFIGS = ['scipy']
DECIDING = ['Line.reversed', 'QuadraticBezier.reversed', 'CubicBezier.reversed', 'Arc.reversed',
            'CubicBezier.split', 'Arc.split', 'CubicBezier.cropped', 'QuadraticBezier.cropped', 'Arc.cropped',
            'Line.cropped', 'path.crop_bezier', 'Path.reversed', 'Path.cropped']
ANCHORED = ['split_bezier', 'crop_bezier', '.split', '.cropped', '.reversed']
RULE = ('cases = one segment (all four types; self-intersecting cubics; arcs with |delta| near 180/360) with parameter pairs '
        'from {0, 1, dyadic, random, nearly equal}, or one path (T at joints, wrap-around crops of closed paths, very unequal '
        'segment lengths, retraced equal segments); every reversed/split/cropped result is compared pointwise with the original '
        'under the documented parameter map; distinct by spec + parameters; non-trivial if an oracle verdict was reached')
RULE += '; reversed() after the path has answered queries, judged through the path parameter; cropped arcs rebuilt from their own fields; reversed()/cropped() of pieces'
ASSUMPTIONS = ['the original object\'s own point() is the reference curve (its correctness is C03/C04\'s subject)',
               'arc results are compared to 1e-6*size (theta/delta come from acos, sqrt(eps)-conditioned; see C04), Bezier results to 1e-9*size, '
               'interior Bezier crops (re-located by radialrange) to 1e-7*size',
               'Path.cropped snaps a crop end whose segment parameter is within np.isclose of 1 (1e-5) or 0 (1e-8) onto the joint, as its code documents; tolerances include that']
TIERS = {
    'quick': {'shards': 14, 'random': 14000, 'timeout': 600, 'min_cases': 9000,
              'require_branches': ['crop:interior-bezier', 'crop:arc-large', 'path:wrap', 'path:retraced',
                                   'path:T-at-joint', 'cubic:self-intersecting', 'seg:foldback']},
    'thorough': {'shards': 14, 'random': 500000, 'timeout': 3000, 'min_cases': 250000,
                 'require_branches': ['crop:interior-bezier', 'crop:arc-large', 'path:wrap', 'path:retraced',
                                      'path:T-at-joint', 'cubic:self-intersecting', 'seg:foldback']},
}
US = [0, 1, 0.5, 0.125, 0.875, 0.3, 0.7, 0.05, 0.95, 0.4321, 0.6789]


def seg_size(s):
    n = type(s).__name__
    if n == 'Arc':
        return max(s.radius.real, s.radius.imag, abs(s.end - s.start))
    pts = gen.spec_points(gen.seg_spec(s))
    return max(abs(p - pts[0]) for p in pts) or max(abs(pts[0]), 1e-300)


def base_tol(s, interior=False):
    if type(s).__name__ == 'Arc':
        # an arc is re-parameterised from its end points; where the ellipse fits the chord almost exactly
        # (half-turn arcs) the centre is sqrt(rounding)-conditioned (DESIGN 3.3), elsewhere it is accurate
        from ..ref import arc as RA
        lam = RA.lam_of(complex(s.start), complex(s.end), s.radius.real, s.radius.imag, s.rotation)
        return (1e-6 if lam > 1 - 1e-6 else 1e-9) * seg_size(s)
    mag = max(abs(p) for p in gen.spec_points(gen.seg_spec(s)))
    return 1e-9 * seg_size(s) + 64 * gen.EPS * mag


def pointwise(ctx, key, what, orig, new, pmap, tol, detail=None):
    ctx.verdict()
    worst = 0.0
    for u in US:
        a = complex(new.point(u))
        b = complex(orig.point(pmap(u)))
        d = abs(a - b)
        if not d <= tol:
            ctx.violation(key, what, dict(detail or {}, u=u, got=repr(a), want=repr(b), tol=tol,
                                          orig=gen.seg_spec(orig)))
            return False
        worst = max(worst, d)
    return True


def _t(x):
    return isinstance(x, (int, float, np.floating, np.integer))


def post_reversed(call):
    ctx = core.CTX
    s = call.args[0]
    r = call.ret
    n = type(s).__name__
    if type(r) is not type(s):
        ctx.verdict()
        ctx.violation('reversed/%s/type' % n, 'reversed() returned a %s' % type(r).__name__)
        return True
    pointwise(ctx, 'reversed/%s' % n, 'reversed().point(u) != point(1-u)', s, r, lambda u: 1 - u, base_tol(s))
    return True


def post_split(call):
    ctx = core.CTX
    s = call.args[0]
    t = call.a.get('t')
    if not _t(t) or not 0 <= t <= 1:
        return False
    n = type(s).__name__
    a, b = call.ret
    tol = max(base_tol(s), base_tol(a) if type(a) is type(s) else 0, base_tol(b) if type(b) is type(s) else 0)
    ok = True
    if t > 0:
        ok = pointwise(ctx, 'split/%s/left' % n, 'left piece of split(t) is not point(u*t)', s, a, lambda u: u * t, tol, {'t': t})
    if ok and t < 1:
        ok = pointwise(ctx, 'split/%s/right' % n, 'right piece of split(t) is not point(t+u(1-t))', s, b,
                       lambda u: t + u * (1 - t), tol, {'t': t})
    if ok and 0 < t < 1:
        ctx.verdict()
        if not (a.end == b.start):
            ctx.violation('split/%s/joint' % n, 'the two pieces of split(t) do not meet exactly', {'t': t})
        elif not (abs(complex(a.end) - complex(s.point(t))) <= tol):
            ctx.violation('split/%s/meeting-point' % n, 'the pieces do not meet at point(t)', {'t': t})
    return True


def _crop_common(ctx, name, s, t0, t1, out):
    interior = (type(s).__name__ != 'Arc' and type(s).__name__ != 'Line' and t0 != 0 and t1 != 1)
    if interior:
        ctx.branch('crop:interior-bezier')
    if type(s).__name__ == 'Arc' and abs(s.delta * (t1 - t0)) > 180:
        ctx.branch('crop:arc-large')
    tol = max(base_tol(s, interior), base_tol(out, interior) if type(out) is type(s) else 0.0)
    key = 'cropped/%s/%s' % (name, 'interior' if interior else 'to-end')
    ok = pointwise(ctx, key, 'cropped(t0,t1).point(u) != point(t0+u(t1-t0))', s, out,
                   lambda u: t0 + u * (t1 - t0), tol, {'t0': t0, 't1': t1})
    if ok and type(out).__name__ == 'Arc':
        # the piece is an Arc like any other: the arc its own defining fields (start, radius, rotation, large_arc,
        # sweep, end) describe is the curve it traces (whatever is built from the piece later - its reverse, its
        # d-string - starts from those fields)
        try:
            twin = type(out)(out.start, out.radius, out.rotation, out.large_arc, out.sweep, out.end)
        except Exception:
            return
        half = abs(abs(out.delta) - 180) < 1e-6
        pointwise(ctx, 'cropped/%s/own-fields' % name, 'the arc described by the piece\'s own fields is not the piece',
                  out, twin, lambda u: u, max(tol, base_tol(out) * (1e3 if half else 1)), {'t0': t0, 't1': t1})


def post_cropped(call):
    ctx = core.CTX
    s = call.args[0]
    t0, t1 = call.a.get('t0'), call.a.get('t1')
    if not (_t(t0) and _t(t1)) or not (0 <= t0 < t1 <= 1):
        return False
    if call.depth > 0 and type(s).__name__ != 'Arc' and (t0 == 0 or t1 == 1) and \
            (ctx.current or {}).get('kind') == 'seg' and call.depth > 1:
        pass
    _crop_common(ctx, type(s).__name__, s, float(t0), float(t1), call.ret)
    return True


def post_crop_bezier(call):
    ctx = core.CTX
    s, t0, t1 = call.a.get('seg'), call.a.get('t0'), call.a.get('t1')
    if not (_t(t0) and _t(t1)) or not (0 <= t0 < t1 <= 1) or not hasattr(s, 'point'):
        return False
    out = call.ret
    if not hasattr(out, 'point'):
        return False
    _crop_common(ctx, 'crop_bezier:' + type(s).__name__, s, float(t0), float(t1), out)
    return True


# --------------------------------------------------------------------------
def post_path_reversed(call):
    ctx = core.CTX
    p = call.args[0]
    r = call.ret
    ctx.verdict()
    if len(r) != len(p):
        ctx.violation('Path.reversed/count', 'reversed path has %d segments instead of %d' % (len(r), len(p)))
        return True
    n = len(p)
    for i in range(n):
        o = p[n - 1 - i]
        if type(r[i]) is not type(o):
            ctx.violation('Path.reversed/type', 'segment %d of the reversed path is a %s' % (i, type(r[i]).__name__))
            return True
        if not pointwise(ctx, 'Path.reversed/points', 'reversed path does not traverse the same points backwards',
                         o, r[i], lambda u: 1 - u, base_tol(o), {'index': i}):
            return True
    try:
        L0, L1 = p.length(), r.length()
    except Exception:
        return True
    if not (math.isfinite(L0) and math.isfinite(L1)):
        ctx.skip('length not finite (C06\'s subject)')
        return True
    # arcs: the reversed arc is re-parameterised from its end points (sqrt(eps)-conditioned, see C04)
    rel = 1e-6 if any(type(s).__name__ == 'Arc' for s in p) else 1e-9
    if not (abs(L0 - L1) <= rel * max(L0, L1) + 1e-300):
        ctx.violation('Path.reversed/length', 'reversed path has a different length', {'L': L0, 'Lrev': L1})
        return True
    # the same at the level of the path parameter: the middle of segment i of the reversed path, addressed by
    # the global parameter T, is the middle of segment n-1-i of the original (addressed by 1-T)
    if not (L1 > 0):
        return True
    try:
        lens = [float(x.length()) for x in r]
    except Exception:
        return True
    cum = [0.0]
    for x in lens:
        cum.append(cum[-1] + x / L1)
    for i in range(n):
        share = cum[i + 1] - cum[i]
        if share < 1e-3:
            continue
        T = cum[i] + 0.5 * share
        try:
            zr, zo = r.point(T), p.point(1 - T)
        except Exception as e:
            ctx.violation('Path.reversed/point-raises', 'point(T) on the reversed path (or point(1-T) on the original) raised %s'
                          % type(e).__name__, {'T': T})
            return True
        want = r[i].point(0.5)
        speed = max(abs(b - a) for a, b in zip(r[i].bpoints(), r[i].bpoints()[1:])) * 3 / max(lens[i], 1e-300) \
            if type(r[i]).__name__ != 'Arc' else 4.0
        tol = 1e-5 * L1 * max(1.0, speed) + base_tol(r[i])
        if not (abs(zr - want) <= tol) or not (abs(zo - want) <= 2 * tol):
            ctx.violation('Path.reversed/parameter', 'reversed().point(T) and point(1-T) are not the same point of the curve',
                          {'T': T, 'index': i, 'reversed.point(T)': repr(zr), 'point(1-T)': repr(zo),
                           'expected': repr(want), 'tol': tol})
            return True
    return True


def post_path_cropped(call):
    ctx = core.CTX
    p = call.args[0]
    T0, T1 = call.a.get('T0'), call.a.get('T1')
    if not (_t(T0) and _t(T1)):
        return False
    r = call.ret
    if not math.isfinite(p.length()):
        ctx.skip('path length not finite (C06\'s subject)')
        return False
    ctx.verdict()
    size = max(seg_size(s) for s in p)
    box = [z for s in p for z in gen.spec_points(gen.seg_spec(s))]
    size = max(size, max(abs(a - box[0]) for a in box))
    L = p.length()
    wrap = T1 < T0
    # tolerance: numerical + the documented np.isclose snapping of t within 1e-8 of a joint
    speed = max((sum(abs(b - a) for a, b in zip(pts, pts[1:])) * 3 if type(s).__name__ != 'Arc'
                 else abs(math.radians(s.delta)) * max(s.radius.real, s.radius.imag))
                for s in p for pts in [gen.spec_points(gen.seg_spec(s))])
    # arcs are re-parameterised from their end points: positions are good to ~sqrt(eps)*radius (C04)
    arcr = max([max(s.radius.real, s.radius.imag) for s in p if type(s).__name__ == 'Arc'] or [0.0])
    # np.isclose(t, 1) snaps a crop end within 1e-5 (rtol) of a segment's end onto the joint, np.isclose(t, 0) within 1e-8
    tol = 1e-9 * size + 1.1e-5 * speed + 1e-9 * arcr + 1e-6 * max([seg_size(x) for x in p if type(x).__name__ == 'Arc' and base_tol(x) > 2e-9 * seg_size(x)] or [0.0])
    tag = 'wrap' if wrap else 'plain'
    if len(r) == 0:
        ctx.violation('Path.cropped/empty', 'cropped path is empty')
        return True
    want0, want1 = complex(p.point(T0)), complex(p.point(T1))
    if not (abs(complex(r[0].start) - want0) <= tol):
        ctx.violation('Path.cropped/start/' + tag, 'cropped path does not start at point(T0)',
                      {'T0': T0, 'T1': T1, 'got': repr(r[0].start), 'want': repr(want0), 'tol': tol})
        return True
    if not (abs(complex(r[-1].end) - want1) <= tol):
        ctx.violation('Path.cropped/end/' + tag, 'cropped path does not end at point(T1)',
                      {'T0': T0, 'T1': T1, 'got': repr(r[-1].end), 'want': repr(want1), 'tol': tol})
        return True
    for i in range(len(r) - 1):
        if not (r[i].end == r[i + 1].start):
            ctx.violation('Path.cropped/joint/' + tag, 'consecutive pieces of the cropped path are not joined',
                          {'T0': T0, 'T1': T1, 'index': i, 'a_end': repr(r[i].end), 'b_start': repr(r[i + 1].start)})
            return True
    try:
        want_len = (L - p.length(T1, T0)) if wrap else p.length(T0, T1)
        got_len = r.length()
    except Exception:
        return True
    ltol = 1e-6 * L + 1.1e-5 * speed * 2
    if not (math.isfinite(got_len) and math.isfinite(want_len)):
        ctx.skip('length not finite (C06\'s subject)')
        return True
    if not (abs(got_len - want_len) <= ltol):
        ctx.violation('Path.cropped/length/' + tag, 'cropped path does not have length length(T0,T1)',
                      {'T0': T0, 'T1': T1, 'got': got_len, 'want': want_len, 'L': L, 'tol': ltol})
    return True


def install(ctx):
    import svgpathtools.path as P
    for cls in (P.Line, P.QuadraticBezier, P.CubicBezier, P.Arc):
        monitor.install(cls, 'reversed', post=post_reversed)
        monitor.install(cls, 'split', post=post_split)
        monitor.install(cls, 'cropped', post=post_cropped)
    monitor.install(P, 'crop_bezier', post=post_crop_bezier)
    monitor.install(P.Path, 'reversed', post=post_path_reversed)
    monitor.install(P.Path, 'cropped', post=post_path_cropped)


# --------------------------------------------------------------------------
def _tpair(rng):
    k = rng.random()
    if k < 0.15:
        return 0, rng.choice([1, rng.uniform(0.05, 1), rng.randint(1, 15) / 16.0])
    if k < 0.3:
        return rng.choice([rng.uniform(0, 0.95), rng.randint(1, 15) / 16.0]), 1
    if k < 0.45:
        a, b = sorted([rng.randint(0, 16) / 16.0, rng.randint(0, 16) / 16.0])
        if a == b:
            return 0.25, 0.75
        return a, b
    if k < 0.55:
        a = rng.uniform(0.01, 0.98)
        return a, min(1.0, a + 10.0 ** rng.uniform(-6, -2))
    a, b = sorted([rng.uniform(0, 1), rng.uniform(0, 1)])
    if b - a < 1e-6:
        return 0.2, 0.8
    return a, b


def _seg_spec(rng):
    k = rng.random()
    scale = 10.0 ** rng.uniform(-2, 4)
    s0 = gen.scaled_point(rng, scale)
    if k < 0.08:
        # curves that run back over themselves: every point is visited twice
        d = gen.scaled_point(rng, scale)
        if rng.random() < 0.5:
            a = rng.uniform(1.2, 3)
            b = rng.uniform(-0.5, 0.9)
            pts = [s0, s0 + a * d, s0 + b * d]
            return ['Q'] + [[z.real, z.imag] for z in pts], ['quad', 'foldback']
        q = s0 + d
        e = s0 if rng.random() < 0.5 else s0 + d * rng.uniform(-0.3, 0.3)
        pts = [s0, q, q, e]
        return ['C'] + [[z.real, z.imag] for z in pts], ['cubic', 'foldback']
    if k < 0.15:
        return gen.rand_seg_spec(rng, 'L', s0, 'rand'), ['line']
    if k < 0.3:
        return gen.rand_seg_spec(rng, 'Q', s0, 'rand'), ['quad']
    if k < 0.5:
        e = gen.scaled_point(rng, scale)
        c1, c2 = gen.scaled_point(rng, scale), gen.scaled_point(rng, scale)
        return ['C', [s0.real, s0.imag], [c1.real, c1.imag], [c2.real, c2.imag], [e.real, e.imag]], ['cubic']
    if k < 0.65:
        # self-intersecting cubic (loop): control polygon crosses itself
        w = scale
        a = s0
        pts = [a, a + complex(2 * w, 1.5 * w) * rng.uniform(.7, 1.3), a + complex(-w, 1.5 * w) * rng.uniform(.7, 1.3),
               a + complex(w, 0) * rng.uniform(.8, 1.2)]
        return ['C'] + [[z.real, z.imag] for z in pts], ['cubic', 'cubic:self-intersecting']
    e = gen.scaled_point(rng, scale)
    if e == s0:
        e = s0 + 1
    mode = rng.random()
    chord = abs(e - s0)
    if mode < 0.3:
        r = chord / 2 * rng.choice([1.0, 1.0000001, 0.9999, 1.001])     # |delta| ~ 180
        rad = [r, r]
    elif mode < 0.5:
        r = chord * rng.uniform(2, 30)                                    # large arc -> |delta| close to 360
        rad = [r, r * rng.choice([1, 1, 2])]
    else:
        rad = [chord * rng.uniform(0.3, 3), chord * rng.uniform(0.3, 3)]
    la = True if 0.3 <= mode < 0.5 else rng.random() < 0.5
    return ['A', [s0.real, s0.imag], rad, rng.choice([0, 30.0, 90, -45.5, rng.uniform(-360, 360)]),
            la, rng.random() < 0.5, [e.real, e.imag]], ['arc']


def _path_case(rng):
    k = rng.random()
    cls = []
    if k < 0.25:
        # retraced: the same (equal) segment occurs twice
        a, b, c = gen.cpoint(rng, 'int'), gen.cpoint(rng, 'int'), gen.cpoint(rng, 'int')
        if len({a, b, c}) < 3:
            a, b, c = 0j, 1 + 0j, 1 + 1j
        specs = [['L', [a.real, a.imag], [b.real, b.imag]], ['L', [b.real, b.imag], [a.real, a.imag]],
                 ['L', [a.real, a.imag], [b.real, b.imag]]]
        if rng.random() < 0.5:
            specs += [['L', [b.real, b.imag], [c.real, c.imag]], ['L', [c.real, c.imag], [a.real, a.imag]]]
        cls.append('path:retraced')
    else:
        kinds = [rng.choice('LLQCA') for _ in range(rng.randint(2, 6))]
        clo = rng.choice(['open', 'line', 'curve'])
        cc = rng.choice(['rand', 'int', 'half'])
        specs = gen.rand_path_specs(rng, kinds, cc, clo)
        if rng.random() < 0.3:
            # very unequal segment lengths
            i = rng.randrange(len(specs))
            if specs[i][0] == 'L' and i + 1 < len(specs):
                p0 = complex(*specs[i][1])
                p1 = p0 + (complex(*specs[i][2]) - p0) * 1e-6
                specs[i][2] = [p1.real, p1.imag]
                specs[i + 1][1] = [p1.real, p1.imag]
                cls.append('path:unequal')
        cls.append('path:' + clo)
    return specs, cls


def cases(ctx):
    rng = ctx.rng
    n = TIERS[ctx.tier]['random'] // ctx.nshards
    for i in range(n):
        if rng.random() < 0.6:
            spec, cls = _seg_spec(rng)
            if spec[0] == 'A' and spec[1] == spec[-1]:
                continue
            if spec[0] == 'L' and spec[1] == spec[2]:
                continue
            pairs = [_tpair(rng) for _ in range(3)]
            yield {'kind': 'seg', 'seg': spec, 'pairs': pairs, 'split': [rng.uniform(0.001, 0.999), rng.randint(1, 7) / 8.0],
                   'cls': cls}
        else:
            specs, cls = _path_case(rng)
            if any(s[0] == 'A' and s[1] == s[-1] for s in specs) or any(s[0] == 'L' and s[1] == s[2] for s in specs):
                continue
            yield {'kind': 'path', 'segs': specs, 'seed': rng.randrange(1 << 30), 'cls': ['path'] + cls}


def run_case(ctx, case):
    import random
    if case['kind'] == 'seg':
        s = gen.seg(case['seg'])
        if 'cubic:self-intersecting' in case['cls']:
            ctx.branch('cubic:self-intersecting')
        if 'foldback' in case['cls']:
            ctx.branch('seg:foldback')
        s.reversed()
        for t in case['split']:
            s.split(t)
        for t0, t1 in case['pairs']:
            piece = s.cropped(t0, t1)
            # pieces are segments too: the same operations apply to them
            piece.reversed()
            piece.cropped(0.25, 0.75)
        return
    p = gen.path(case['segs'])
    for c in case['cls']:
        if c == 'path:retraced':
            ctx.branch('path:retraced')
    rng = random.Random(case['seed'])
    p.reversed()
    n = len(p)
    L = p.length()
    if not (L > 0):
        raise core.Skip('zero-length path')
    cum = [0.0]
    for s in p:
        cum.append(cum[-1] + s.length() / L)
    closed = p.iscontinuous() and p.isclosed()
    p.point(rng.random())
    p.reversed()                    # once more, now that the path has answered length and point queries
    pairs = []
    for _ in range(4):
        k = rng.random()
        if k < 0.3:
            a, b = sorted([rng.uniform(0, 1), rng.uniform(0, 1)])
        elif k < 0.6:
            j = rng.randrange(1, n) if n > 1 else 0
            ctx.branch('path:T-at-joint')
            a, b = sorted([min(1.0, max(0.0, cum[j])), rng.uniform(0, 1)])
        elif k < 0.75:
            a, b = 0, rng.uniform(0.05, 1)
        elif k < 0.9:
            a, b = rng.uniform(0, 0.95), 1
        else:
            a, b = sorted([rng.uniform(0, 1), rng.uniform(0, 1)])
        minshare = min(x for x in (cum[i + 1] - cum[i] for i in range(n)) if x > 0) if any(
            cum[i + 1] > cum[i] for i in range(n)) else 1.0
        if b - a < max(1e-6 * minshare, 1e-9):
            continue
        if closed and rng.random() < 0.4 and not (b == 1 and a == 0) and a != b:
            a, b = b, a
            if a == 1 and b == 0:
                continue
            ctx.branch('path:wrap')
        pairs.append((a, b))
    for a, b in pairs:
        p.cropped(a, b)


def crash_key(ctx, case, e, site):
    return 'crash/%s@%s/%s' % (type(e).__name__, site, case['kind'] + ('/' + case['cls'][-1] if case['kind'] == 'path' else ''))


REGISTER = True
TECHNIQUE = 'runtime monitors on reversed/split/cropped (segments and paths) and crop_bezier; oracle = pointwise parameter-map identities against the original curve, exact joints, interior-segment membership and length'
LEVEL_TEXT = ('Every reversed/split/cropped result produced during the workload (also the nested crop_bezier/split calls) is compared at 11 '
              'parameters with the original curve under the documented parameter map; path crops are checked for end points, exactly joined '
              'pieces and length including wrap-around crops of closed paths and paths that retrace an equal segment.')
LEVEL_NOTE = 'The original object\'s point() is the reference curve (checked by C03/C04); tolerances per ASSUMPTIONS.'
