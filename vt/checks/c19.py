"""C19 - Generic n-th order Bezier and polynomial helpers are exact and lose no roots.

Monitors: n_choose_k, bernstein, bezier_point, bezier2polynomial, polynomial2bezier,
          split_bezier, halve_bezier, polyroots, polyroots01, rational_limit
          (re-bound in every module, so internal uses are monitored too).
Oracles : exact-rational Bernstein arithmetic; symbolic-value execution per degree;
          exact Sturm-sequence root isolation of the actual float polynomial;
          exact limit of the rational function by cancelling the common power of (x - t0).
"""
import math
from fractions import Fraction as F

import numpy as np

from .. import core, gen, monitor, symb
from ..ref import exact as X

PROP = 'C19'
CONFIGS = ['scipy']
DECIDING = ['bezier.n_choose_k', 'bezier.bernstein', 'bezier.bezier_point', 'bezier.bezier2polynomial',
            'bezier.polynomial2bezier', 'bezier.split_bezier', 'bezier.halve_bezier', 'polytools.polyroots', 'polytools.polyroots01',
            'polytools.rational_limit']
ANCHORED = ['n_choose_k', 'bernstein', 'bezier_point', 'bezier2polynomial', 'polynomial2bezier', 'split_bezier',
            'halve_bezier', 'polyroots', 'polyroots01', 'rational_limit']
RULE = ('cases = (a) control-point tuples of degree 0..8 with parameters t, (b) real polynomials of degree <=8 built from '
        'prescribed root multisets (well separated / pairs 1e-5..1e-9 apart / exact double roots / complex pairs near and far '
        'from the axis / out-of-range roots, cluster placed at every rank), (c) rational functions with common zeros of order '
        '0..3, (d) one symbolic-value execution per shard for degrees 0..8; distinct by full spec; non-trivial if an oracle '
        'verdict was reached')
RULE += '; a root whose close neighbour fails the condition, roots 1e3..1e12 out of range, micro-scale rational limits'
ASSUMPTIONS = ['Fraction arithmetic, the Sturm implementation in vt/ref/exact.py and sympy.expand are correct',
               'a root is judged only if it is simple, >= 1e-4 from every other real root and from the real part of every '
               'near-real complex root (numpy.roots is used as a hint for this exclusion only), satisfies the condition with '
               'margin 1e-6 and has an a-priori error estimate 64*eps*sum|a_j|max(1,|r|)^n/|p\'(r)| below 1e-8']
TIERS = {
    'quick': {'shards': 14, 'random': 14000, 'timeout': 600, 'min_cases': 8000,
              'require_branches': ['symbolic:identities-proved', 'roots:close-pair-present', 'roots:complex-near-axis',
                                   'limit:common-zero', 'roots:internal-caller', 'roots:neighbour-fails-condition', 'roots:far-root', 'limit:micro-scale']},
    'thorough': {'shards': 14, 'random': 600000, 'timeout': 3000, 'min_cases': 200000,
                 'require_branches': ['symbolic:identities-proved', 'roots:close-pair-present',
                                      'roots:complex-near-axis', 'limit:common-zero', 'roots:internal-caller', 'roots:neighbour-fails-condition', 'roots:far-root', 'limit:micro-scale']},
}
EPS = gen.EPS


def _cplx_list(p):
    try:
        out = [complex(z) for z in p]
    except (TypeError, ValueError):
        return None
    if any(not (math.isfinite(z.real) and math.isfinite(z.imag)) for z in out):
        return None
    return out


def _S(bps):
    return sum(abs(z) for z in bps)


def _num(t):
    return isinstance(t, (int, float, np.floating, np.integer)) and not isinstance(t, bool)


# --------------------------------------------------------------------------
def post_nck(call):
    ctx = core.CTX
    n, k = call.a.get('n'), call.a.get('k')
    if not (isinstance(n, int) and isinstance(k, int) and 0 <= k <= n):
        return False
    ctx.verdict()
    if call.ret != math.comb(n, k):
        ctx.violation('n_choose_k', 'n_choose_k(%d,%d) = %r' % (n, k, call.ret))
    return True


def post_bernstein(call):
    ctx = core.CTX
    n, t = call.a.get('n'), call.a.get('t')
    if not (isinstance(n, int) and _num(t)):
        return False
    ex = [float(v) for v in X.bernstein(n, t)]
    ctx.verdict()
    tol = 8 * (n + 2) * EPS * (max(1.0, abs(t)) + abs(1 - t)) ** n
    ret = list(call.ret)
    if len(ret) != n + 1 or any(not (abs(a - b) <= tol * max(1.0, abs(b))) for a, b in zip(ret, ex)):
        ctx.violation('bernstein/deg%d' % n, 'bernstein(%d, t) differs from C(n,k)(1-t)^(n-k)t^k' % n,
                      {'t': float(t), 'got': repr(ret), 'exact': ex})
    return True


def post_bezier_point(call):
    ctx = core.CTX
    p, t = call.a.get('p'), call.a.get('t')
    if hasattr(p, 'large_arc') or not _num(t):
        return False
    bps = _cplx_list(p)
    if bps is None or len(bps) == 0:
        return False
    n = len(bps) - 1
    ex = X.cfl(X.bez(bps, t))
    tol = 8 * (2 * n + 2) * EPS * 3 ** n * _S(bps) * max(1.0, abs(float(t))) ** n
    ctx.verdict()
    if not (abs(complex(call.ret) - ex) <= tol):
        ctx.violation('bezier_point/deg%d' % n, 'bezier_point differs from the Bernstein curve',
                      {'t': float(t), 'got': repr(call.ret), 'exact': repr(ex), 'tol': tol})
    return True


def post_b2p(call):
    ctx = core.CTX
    bps = _cplx_list(call.a.get('p'))
    if bps is None or len(bps) == 0:
        return False
    ret = call.ret
    coeffs = list(ret.coeffs) if isinstance(ret, np.poly1d) else list(ret)
    if not call.a.get('numpy_ordering', True) and not isinstance(ret, np.poly1d):
        coeffs = coeffs[::-1]
    ex = [X.cfl(c) for c in X.power_coeffs(bps)]
    if isinstance(ret, np.poly1d):
        if not call.a.get('numpy_ordering', True):
            return False          # poly1d of reversed coefficients: not a meaningful combination
        coeffs = [0j] * (len(ex) - len(coeffs)) + coeffs
    n = len(bps) - 1
    tol = 8 * (n + 2) * EPS * 3 ** n * _S(bps)
    ctx.verdict()
    if len(coeffs) != len(ex) or any(not (abs(complex(a) - b) <= tol) for a, b in zip(coeffs, ex)):
        ctx.violation('bezier2polynomial/deg%d' % n, 'bezier2polynomial differs from the exact power-basis coefficients',
                      {'got': repr(coeffs), 'exact': repr(ex), 'tol': tol})
    return True


def post_p2b(call):
    ctx = core.CTX
    poly = call.a.get('poly')
    c = _cplx_list(poly.coeffs if isinstance(poly, np.poly1d) else poly)
    if c is None or not 1 <= len(c) - 1 <= 3:
        return False
    n = len(c) - 1
    asc = [X.cfr(z) for z in c[::-1]]
    ex = []
    for i in range(n + 1):
        re = sum(F(math.comb(i, j), math.comb(n, j)) * asc[j][0] for j in range(i + 1))
        im = sum(F(math.comb(i, j), math.comb(n, j)) * asc[j][1] for j in range(i + 1))
        ex.append(complex(float(re), float(im)))
    tol = 8 * (n + 2) * EPS * sum(abs(z) for z in c)
    ret = list(call.ret)
    ctx.verdict()
    if len(ret) != n + 1 or any(not (abs(complex(a) - b) <= tol) for a, b in zip(ret, ex)):
        ctx.violation('polynomial2bezier/deg%d' % n, 'polynomial2bezier differs from the exact change of basis',
                      {'got': repr(ret), 'exact': repr(ex)})
    return True


def _check_split(ctx, name, bps, t, left, right):
    n = len(bps) - 1
    el, er = X.split(bps, t)
    el, er = [X.cfl(z) for z in el], [X.cfl(z) for z in er]
    tol = 8 * (n + 2) * EPS * _S(bps) * (max(1.0, abs(t)) + abs(1 - t)) ** n
    ctx.verdict()
    left, right = list(left), list(right)
    if len(left) != n + 1 or len(right) != n + 1:
        ctx.violation('%s/deg%d/len' % (name, n), '%s returned pieces of the wrong degree' % name)
        return
    for side, got, ex in (('left', left, el), ('right', right, er)):
        for i, (a, b) in enumerate(zip(got, ex)):
            if not (abs(complex(a) - b) <= tol):
                ctx.violation('%s/deg%d/%s' % (name, n, side),
                              '%s: control point %d of the %s piece differs from de Casteljau' % (name, i, side),
                              {'t': float(t), 'got': repr(a), 'exact': repr(b), 'tol': tol})
                return


def post_split(call):
    ctx = core.CTX
    bps = _cplx_list(call.a.get('bpoints'))
    t = call.a.get('t')
    if bps is None or len(bps) < 1 or not _num(t):
        return False
    _check_split(ctx, 'split_bezier', bps, float(t), call.ret[0], call.ret[1])
    return True


def post_halve(call):
    ctx = core.CTX
    p = call.a.get('p')
    if hasattr(p, 'large_arc'):
        return False
    bps = _cplx_list(p)
    if bps is None or len(bps) < 1:
        return False
    _check_split(ctx, 'halve_bezier', bps, 0.5, call.ret[0], call.ret[1])
    return True


# --------------------------------------------------------------------------
# roots

def _judgeable_roots(coeffs, condition, realroots):
    """roots of the float polynomial that the statement covers, plus skip counts"""
    p = X.ptrim([X.fr(c) for c in coeffs])
    if p == [0] or len(p) <= 1:
        return [], {}
    n = len(p) - 1
    ivs, _ = X.int_real_roots(p, width_bits=36)
    reals = [float((lo + hi) / 2) for lo, hi, m in ivs]
    dp = X.pderiv(p)
    try:
        hint = np.roots([float(c) for c in coeffs])
    except Exception:
        hint = []
    nearreal = [z for z in hint if 1e-9 < abs(z.imag) < 1e-3]
    sabs = sum(abs(float(c)) for c in p)
    out, skips = [], {}
    for idx, ((lo, hi, mult), r) in enumerate(zip(ivs, reals)):
        def sk(why):
            skips[why] = skips.get(why, 0) + 1
        if mult:
            sk('multiple root')
            continue
        near = [o for k, o in enumerate(reals) if k != idx and abs(r - o) < 1e-4 * max(1.0, abs(r))]
        straddle = False
        if near:
            # a neighbour excuses the root (the two may legitimately be merged as duplicates) unless it clearly
            # FAILS the condition: then it is not a root "that satisfies the condition", nothing may be merged
            # with it, and the root next to it must still be reported (neighbour >= 4e-6 away so that both are
            # clearly on their side of the condition and resolved by any root finder)
            def fails(o):
                try:
                    return not any(bool(condition(v)) for v in (o, o - 1e-6, o + 1e-6))
                except Exception:
                    return False
            if all(abs(r - o) >= 4e-6 * max(1.0, abs(r)) and fails(o) for o in near):
                straddle = True
            else:
                sk('another real root within 1e-4')
                continue
        if any(abs(z.real - r) < 1e-3 * max(1.0, abs(r)) for z in nearreal):
            sk('complex pair close to the axis near this root')
            continue
        try:
            vals = [bool(condition(v)) for v in (r, r - 1e-6, r + 1e-6)]
        except Exception:
            sk('condition not evaluable')
            continue
        if not all(vals):
            if any(vals):
                sk('root within 1e-6 of the condition boundary')
            continue
        dpr = abs(float(X.peval(dp, (lo + hi) / 2)))
        if dpr == 0:
            sk('ill-conditioned root')
            continue
        err = 64 * EPS * sabs * max(1.0, abs(r)) ** n / dpr
        if not err < 1e-8 * max(1.0, abs(r)):
            sk('ill-conditioned root')
            continue
        if straddle:
            core.CTX.branch('roots:neighbour-fails-condition')
        out.append(r)
    return out, skips


def post_polyroots01(call):
    """polyroots01 = the real roots in [0, 1] (the oracle brings its own condition)"""
    return post_polyroots(call, name='polyroots01', condition=lambda r: 0 <= r <= 1, realroots=True)


def post_polyroots(call, name='polyroots', condition=None, realroots=None):
    ctx = core.CTX
    p = call.a.get('p')
    coeffs = _cplx_list(list(p))
    if coeffs is None or any(z.imag != 0 for z in coeffs):
        return False
    coeffs = [z.real for z in coeffs]
    if len(coeffs) > 12 or all(c == 0 for c in coeffs):
        return False
    big = max(abs(c) for c in coeffs)
    if big > 1e150 or big < 1e-150:
        return False
    if condition is None:
        condition = call.a.get('condition')
        realroots = call.a.get('realroots', False)
    want, skips = _judgeable_roots(coeffs, condition, realroots)
    for k, v in skips.items():
        ctx.skip('root not judged: ' + k)
    if (ctx.current or {}).get('kind') == 'internal':
        ctx.branch('roots:internal-caller')
    if not want:
        return False
    ret = list(call.ret)
    ctx.verdict()
    for r in want:
        hits = sum(1 for v in ret if abs(complex(v) - r) <= 1e-7 * max(1.0, abs(r)))
        if hits != 1:
            kind = 'lost' if hits == 0 else 'reported-%d-times' % hits
            ctx.violation('%s/%s/%s' % (name, kind, 'real' if realroots else 'all'),
                          'a simple, well-separated, well-conditioned real root satisfying the condition is %s' % kind,
                          {'coeffs': [repr(c) for c in coeffs], 'root': r, 'returned': [repr(v) for v in ret]})
            break
    return True


# --------------------------------------------------------------------------
# rational_limit

def _cpoly(p):
    c = _cplx_list(list(p.coeffs))
    if c is None:
        return None
    return [(F(z.real), F(z.imag)) for z in c]


def _ceval(p, x):
    re, im = F(0), F(0)
    for a, b in p:
        re, im = re * x + a, im * x + b
    return (re, im)


def _cderiv(p):
    n = len(p) - 1
    if n <= 0:
        return [(F(0), F(0))]
    return [(a * (n - i), b * (n - i)) for i, (a, b) in enumerate(p[:-1])]


def _horner_abs(p, x):
    s = 0.0
    for a, b in p:
        s = s * abs(x) + abs(complex(float(a), float(b)))
    return s


def post_rational_limit(call):
    ctx = core.CTX
    f, g, t0 = call.a.get('f'), call.a.get('g'), call.a.get('t0')
    if not (isinstance(f, np.poly1d) and isinstance(g, np.poly1d) and _num(t0)):
        return False
    pf, pg = _cpoly(f), _cpoly(g)
    if pf is None or pg is None:
        return False
    x = F(float(t0))
    k = 0
    while True:
        gv = _ceval(pg, x)
        fv = _ceval(pf, x)
        if gv != (0, 0):
            break
        if fv != (0, 0):
            return False       # limit does not exist: the function must raise (exception observer)
        pf, pg = _cderiv(pf), _cderiv(pg)
        k += 1
        if k > 12:
            return False
    gmag = abs(complex(float(gv[0]), float(gv[1])))
    fmag = abs(complex(float(fv[0]), float(fv[1])))
    # conditioning of the float evaluation of the (k times differentiated) quotient
    gnoise = 64 * EPS * _horner_abs(pg, float(t0))
    fnoise = 64 * EPS * _horner_abs(pf, float(t0))
    if gmag <= 1e6 * gnoise:
        ctx.skip('rational_limit: denominator not exactly zero but within rounding of zero')
        return False
    den = gv[0] * gv[0] + gv[1] * gv[1]
    lim = complex(float((fv[0] * gv[0] + fv[1] * gv[1]) / den), float((fv[1] * gv[0] - fv[0] * gv[1]) / den))
    tol = 8 * (fnoise / gmag + (fmag / gmag) * (gnoise / gmag)) + 1e-300
    ctx.verdict()
    ctx.branch('limit:common-zero' if k else 'limit:regular')
    if not (abs(complex(call.ret) - lim) <= tol):
        ctx.violation('rational_limit/%s' % ('common-zero-order-%d' % k if k else 'regular'),
                      'rational_limit differs from the exact limit',
                      {'t0': float(t0), 'got': repr(call.ret), 'exact': repr(lim), 'tol': tol, 'order': k})
    return True


def exc_rational_limit(call):
    ctx = core.CTX
    if call.depth > 0:
        return False       # only the outermost call of the recursion is judged
    f, g, t0 = call.a.get('f'), call.a.get('g'), call.a.get('t0')
    if not (isinstance(f, np.poly1d) and isinstance(g, np.poly1d) and _num(t0)):
        return False
    pf, pg = _cpoly(f), _cpoly(g)
    x = F(float(t0))
    for k in range(12):
        gv, fv = _ceval(pg, x), _ceval(pf, x)
        if gv != (0, 0):
            if abs(complex(float(gv[0]), float(gv[1]))) <= 1e6 * 64 * EPS * _horner_abs(pg, float(t0)):
                ctx.skip('rational_limit: denominator not exactly zero but within rounding of zero')
                return False
            ctx.verdict()
            ctx.violation('rational_limit/raised-where-limit-exists',
                          'rational_limit raised %s although the limit exists (common zero of order %d)' % (
                              type(call.exc).__name__, k), {'t0': float(t0)})
            return True
        if fv != (0, 0):
            return False   # genuinely no limit
        pf, pg = _cderiv(pf), _cderiv(pg)
    return False


def install(ctx):
    import svgpathtools.bezier as B
    import svgpathtools.polytools as T
    monitor.install(B, 'n_choose_k', post=post_nck)
    monitor.install(B, 'bernstein', post=post_bernstein)
    monitor.install(B, 'bezier_point', post=post_bezier_point)
    monitor.install(B, 'bezier2polynomial', post=post_b2p)
    monitor.install(B, 'polynomial2bezier', post=post_p2b)
    monitor.install(B, 'split_bezier', post=post_split)
    monitor.install(B, 'halve_bezier', post=post_halve)
    monitor.install(T, 'polyroots', post=post_polyroots)
    monitor.install(T, 'polyroots01', post=post_polyroots01)
    monitor.install(T, 'rational_limit', post=post_rational_limit, on_exc=exc_rational_limit)


# --------------------------------------------------------------------------
def symbolic_case(ctx):
    import sympy as sp
    import svgpathtools.bezier as B
    t = sp.Symbol('t')
    fails = []
    with monitor.suspended():
        for n in range(0, 9):
            Ps = symb.symbols('P', n + 1)
            Bt = symb.bernstein_expr(Ps, t)
            if not symb.is_zero(B.bezier_point(Ps, t) - Bt):
                fails.append('bezier_point/deg%d' % n)
            co = B.bezier2polynomial(Ps)
            if not symb.is_zero(sum(c * t ** (n - j) for j, c in enumerate(co)) - Bt):
                fails.append('bezier2polynomial/deg%d' % n)
            co2 = B.bezier2polynomial(Ps, numpy_ordering=False)
            if not symb.is_zero(sum(c * t ** j for j, c in enumerate(co2)) - Bt):
                fails.append('bezier2polynomial(numpy_ordering=False)/deg%d' % n)
            if n >= 1:
                bern = B.bernstein(n, t)
                if not all(symb.is_zero(b - sp.binomial(n, k) * (1 - t) ** (n - k) * t ** k)
                           for k, b in enumerate(bern)):
                    fails.append('bernstein/deg%d' % n)
            if 1 <= n <= 3:
                back = B.polynomial2bezier(co)
                if not all(symb.is_zero(a - b) for a, b in zip(back, Ps)):
                    fails.append('polynomial2bezier(bezier2polynomial)/deg%d' % n)
                A = symb.symbols('a', n + 1)
                fwd = B.bezier2polynomial(B.polynomial2bezier(A))
                if not all(symb.is_zero(a - b) for a, b in zip(fwd, A)):
                    fails.append('bezier2polynomial(polynomial2bezier)/deg%d' % n)
            # sub-curves: left(u) = B(u t), right(u) = B(t + u (1 - t))
            u = sp.Symbol('u')
            for name, (l, r) in (('split_bezier', B.split_bezier(list(Ps), t)),):
                if not symb.is_zero(symb.bernstein_expr(l, u) - Bt.subs(t, u * t)):
                    fails.append('%s-left/deg%d' % (name, n))
                if not symb.is_zero(symb.bernstein_expr(r, u) - Bt.subs(t, t + u * (1 - t))):
                    fails.append('%s-right/deg%d' % (name, n))
            l, r = B.halve_bezier(list(Ps))
            half = sp.Rational(1, 2)
            if not symb.is_zero(symb.bernstein_expr(l, u) - Bt.subs(t, u * half)) or \
                    not symb.is_zero(symb.bernstein_expr(r, u) - Bt.subs(t, half + u * half)):
                fails.append('halve_bezier/deg%d' % n)
            ctx.verdict(8)
    for f in fails:
        ctx.violation('symbolic/' + f, 'symbolic-value execution of %s does not expand to the Bernstein identity' % f)
    if not fails:
        ctx.branch('symbolic:identities-proved')


def _poly_from_roots(rng, roots, lead):
    """exact expansion of lead * prod (x - r) (complex roots come in conjugate pairs), rounded to doubles"""
    p = [F(1)]
    for r in roots:
        if isinstance(r, complex):
            a, b = F(r.real), F(r.imag)
            p = X.pmul(p, [F(1), -2 * a, a * a + b * b])
        else:
            p = X.pmul(p, [F(1), -F(r)])
    return [float(c * F(lead)) for c in p]


def _root_set(rng):
    n = rng.randint(1, 8)
    roots, tags = [], set()
    while len(roots) < n:
        k = rng.random()
        room = n - len(roots)
        if k < 0.35:
            roots.append(rng.uniform(-0.5, 1.5))
        elif k < 0.5 and room >= 2:
            r = rng.uniform(0.05, 0.95)
            roots += [r, r + 10.0 ** rng.uniform(-9, -5)]
            tags.add('close-pair')
        elif k < 0.6 and room >= 2:
            r = rng.randint(1, 15) / 16.0
            roots += [r, r]
            tags.add('double')
        elif k < 0.8 and room >= 2:
            roots.append(complex(rng.uniform(-0.2, 1.2), 10.0 ** rng.uniform(-8, 0.5)))
            tags.add('complex')
            if roots[-1].imag < 1e-3:
                tags.add('complex-near-axis')
            room -= 1
        elif k < 0.9:
            roots.append(rng.choice([-1, 1]) * rng.uniform(2, 50))
        else:
            roots.append(rng.choice([0.0, 1.0, 0.5, 0.25]))
    if not tags and len(roots) <= 2 and rng.random() < 0.5:
        # a root very far out of range next to ordinary ones.  Only for polynomials of degree <= 3 with simple,
        # well separated real roots: an eigenvalue solver is backward stable in the norm of the companion matrix,
        # which such a root makes huge - next to a near-double or near-real complex pair a small root is then
        # legitimately returned with an error of 1e-6 (seen in the thorough tier; not a lost root)
        roots.append(rng.choice([-1, 1]) * 10.0 ** rng.uniform(3, 12))
        tags.add('far-root')
    # numpy returns roots roughly ordered; place the cluster at a random rank by shuffling magnitudes
    rng.shuffle(roots)
    deg = sum(2 if isinstance(r, complex) else 1 for r in roots)
    while deg > 8:
        r = roots.pop()
        deg -= 2 if isinstance(r, complex) else 1
    return roots, sorted(tags)


def cases(ctx):
    rng = ctx.rng
    plan = TIERS[ctx.tier]
    yield {'kind': 'symbolic', 'shard': ctx.shard, 'cls': ['symbolic']}
    # the witness family of the de-duplication defect, at every rank position
    for i, base in enumerate([[0.9, 0.5, 0.500002, 0.2], [0.2, 0.9, 0.5, 0.500002], [0.5, 0.500002, 0.9, 0.2],
                              [0.1, 0.3, 0.300001, 0.6, 0.8], [0.7, 0.700003, 0.1, 0.2, 0.3, 0.4]]):
        if i % ctx.nshards == ctx.shard:
            yield {'kind': 'roots', 'roots': base, 'lead': 1.0, 'cond': '01', 'cls': ['roots', 'fixed-family']}
    n = plan['random'] // ctx.nshards
    for i in range(n):
        k = rng.random()
        if k < 0.3:
            deg = rng.randint(0, 8)
            scale = 10.0 ** rng.uniform(-3, 4)
            pts = [[rng.uniform(-scale, scale), rng.uniform(-scale, scale)] for _ in range(deg + 1)]
            if rng.random() < 0.3:
                pts = [[float(round(a)), float(round(b))] for a, b in pts]
            ts = [rng.choice([0, 1, 0.5, 0.25]), rng.uniform(0, 1), rng.uniform(-0.25, 1.25)]
            yield {'kind': 'bez', 'pts': pts, 'ts': ts, 'cls': ['bez', 'deg%d' % deg]}
        elif k < 0.36:
            # two real roots 4e-6 .. 1e-4 apart on either side of the condition's boundary, plus a few others:
            # only one of the two satisfies the condition, and it has to be reported
            # (the library merges roots that numpy.isclose calls equal, i.e. closer than about 1e-5 relative)
            c = rng.choice([1.0, 2.0, 2.0, 8.0, 30.0])
            sep = c * 10.0 ** rng.uniform(-5.34, -4.3)
            a = rng.uniform(0.35, 0.65)
            roots = [c - a * sep, c + (1 - a) * sep]
            for _ in range(rng.randint(0, 2)):
                roots.append(c + rng.choice([-1, 1]) * rng.uniform(1.5, 4) * c)
            rng.shuffle(roots)
            yield {'kind': 'roots', 'roots': roots, 'lead': rng.choice([1.0, -1.0, 3.0]),
                   'cond': rng.choice(['le:', 'ge:']) + repr(c), 'cls': ['roots', 'roots:straddle-condition']}
        elif k < 0.8:
            roots, tags = _root_set(rng)
            lead = rng.choice([1.0, -1.0, 10.0 ** rng.uniform(-6, 6)])
            cond = rng.choice(['01', '01', 'all', 'open01', 'pos'])
            spec = [[r.real, r.imag] if isinstance(r, complex) else r for r in roots]
            yield {'kind': 'roots', 'roots': spec, 'lead': lead, 'cond': cond,
                   'cls': ['roots', 'cond:' + cond] + ['roots:' + t for t in tags]}
        elif k < 0.92:
            order = rng.randint(0, 3)
            dyadic = rng.random() < 0.5
            t0 = rng.choice([0.0, 1.0, 0.5, 0.25]) if dyadic else rng.uniform(0, 1)
            def coef():
                return float(rng.randint(-8, 8)) if dyadic else rng.uniform(-5, 5)
            h1 = [coef() for _ in range(rng.randint(1, 3))]
            h2 = [coef() for _ in range(rng.randint(1, 3))]
            cls = ['limit', 'order%d' % order, 'dyadic' if dyadic else 'generic']
            if rng.random() < 0.25:
                # micro-scale coefficients (a drawing in metres, a denominator with a tiny constant term): whether
                # g(t0) is zero is a question about the polynomial, not about an absolute threshold
                sc = 2.0 ** (-rng.randint(24, 50))
                h2 = [c * sc for c in h2]
                if rng.random() < 0.5:
                    h1 = [c * sc for c in h1]
                cls.append('limit:micro-scale')
            yield {'kind': 'limit', 't0': t0, 'order': order, 'h1': h1, 'h2': h2, 'dyadic': dyadic, 'cls': cls}
        else:
            kinds = rng.choice(['Q', 'C'])
            s = gen.rand_seg_spec(rng, kinds, gen.cpoint(rng, 'rand'), 'rand')
            z = gen.cpoint(rng, 'rand')
            l = gen.rand_seg_spec(rng, 'L', gen.cpoint(rng, 'rand'), 'rand')
            yield {'kind': 'internal', 'seg': s, 'z': [z.real, z.imag], 'line': l, 'cls': ['internal-callers']}


CONDS = {
    '01': None,   # polyroots01
    'all': lambda r: True,
    'open01': lambda r: 0 < r < 1,
    'pos': lambda r: r > 0,
}


def _cond(name):
    if name.startswith('le:'):
        c = float(name[3:])
        return lambda r: r <= c
    if name.startswith('ge:'):
        c = float(name[3:])
        return lambda r: r >= c
    return CONDS[name]



def run_case(ctx, case):
    import svgpathtools.bezier as B
    import svgpathtools.polytools as T
    kind = case['kind']
    if kind == 'symbolic':
        symbolic_case(ctx)
    elif kind == 'bez':
        pts = [complex(*z) for z in case['pts']]
        n = len(pts) - 1
        for t in case['ts']:
            B.bezier_point(pts, t)
            B.bezier_point(tuple(z.real for z in pts), t)
            B.split_bezier(pts, t)
            if n >= 1:
                B.bernstein(n, t)
        B.halve_bezier(pts)
        B.bezier2polynomial(pts)
        B.bezier2polynomial(tuple(pts), numpy_ordering=False)
        B.bezier2polynomial(pts, return_poly1d=True)
        if 1 <= n <= 3:
            B.polynomial2bezier(B.bezier2polynomial(pts))
            pl = B.bezier2polynomial(pts, return_poly1d=True)
            if pl.order >= 1:
                B.polynomial2bezier(pl)
        for k in range(n + 1):
            B.n_choose_k(n, k)
    elif kind == 'roots':
        roots = [complex(*r) if isinstance(r, list) else r for r in case['roots']]
        if any('close' in c for c in case['cls']) or case['cls'][1:] == ['fixed-family']:
            ctx.branch('roots:close-pair-present')
        if 'roots:complex-near-axis' in case['cls']:
            ctx.branch('roots:complex-near-axis')
        if 'roots:far-root' in case['cls']:
            ctx.branch('roots:far-root')
        coeffs = _poly_from_roots(ctx.rng, roots, case['lead'])
        if case['cond'] == '01':
            T.polyroots01(coeffs)
            T.polyroots01(np.poly1d(coeffs))
        else:
            T.polyroots(coeffs, realroots=True, condition=_cond(case['cond']))
            if case['cond'] == 'all':
                T.polyroots(coeffs)
    elif kind == 'limit':
        if 'limit:micro-scale' in case['cls']:
            ctx.branch('limit:micro-scale')
        t0, order = case['t0'], case['order']
        fac = [F(1)]
        for _ in range(order):
            fac = X.pmul(fac, [F(1), -F(t0)])
        f = [float(c) for c in X.pmul(fac, [F(c) for c in case['h1']])]
        g = [float(c) for c in X.pmul(fac, [F(c) for c in case['h2']])]
        if all(c == 0 for c in g) or all(c == 0 for c in f):
            raise core.Skip('zero polynomial')
        try:
            T.rational_limit(np.poly1d(f), np.poly1d(g), t0)
        except ValueError:
            pass          # judged by the exception observer (legitimate when no limit exists)
        except AssertionError:
            raise core.Skip('g is the zero polynomial after trimming')
    elif kind == 'internal':
        s = gen.seg(case['seg'])
        ln = gen.seg(case['line'])
        s.bbox()
        s.radialrange(complex(*case['z']))
        try:
            s.intersect(ln)
        except ValueError:
            pass


def crash_key(ctx, case, e, site):
    return 'crash/%s@%s/%s' % (type(e).__name__, site, case.get('kind'))


REGISTER = True
TECHNIQUE = 'runtime monitors on the generic Bezier/polynomial helpers with exact-rational oracles (Bernstein arithmetic, Sturm root isolation, exact limits) + symbolic-value execution per degree 0..8'
LEVEL_TEXT = ('Every call of the ten helpers during the workload is compared with exact rational arithmetic on the actual double inputs; the '
              'polynomial identities are observed by running the real functions on sympy symbols for each degree 0..8; root completeness is '
              'decided against an exact Sturm-sequence isolation of the real roots of the very polynomial that was passed, for every root '
              'the statement covers (simple, separated, condition with margin, well conditioned), including calls made internally by bbox, '
              'radialrange and intersect.')
LEVEL_NOTE = 'Trusts vt/ref/exact.py (Fractions, Sturm), sympy.expand; numpy.roots is used only to exclude roots near almost-real complex pairs from judgement.'
