"""C04 - Arc realises the SVG endpoint parameterisation (F.6.5) for all parameters.

Monitors: post-condition on Arc.__init__ (fires for every Arc the library itself
          constructs: parser, reversed, cropped, rotated, translated, scaled ...),
          on Arc.point, Arc.derivative, Arc.as_cubic_curves, Arc.as_quad_curves.
Oracle  : vt/ref/arc.py (F.6.5 from the W3C text, math only).
"""
import math

import numpy as np

from .. import core, gen, monitor
from ..ref import arc as RA

PROP = 'C04'
CONFIGS = ['scipy']
DECIDING = ['Arc.__init__', 'Arc.point', 'Arc.derivative', 'Arc.as_cubic_curves', 'Arc.as_quad_curves']
ANCHORED = ['Arc.__init__', 'Arc._parameterize', 'Arc.point', 'Arc.derivative', 'Arc.as_cubic_curves',
            'Arc.as_quad_curves']
RULE = ('cases = one admissible (start, radius, rotation, large_arc, sweep, end) tuple from the grid flags x rotation x '
        'Lambda class x radius signs x eccentricity x chord heading, or seeded random; each is constructed directly, via the '
        'parser, and via reversed/cropped/rotated/translated/scaled (all constructions are judged by the Arc.__init__ '
        'monitor), evaluated at 7 parameters, differentiated to order 8 and approximated by cubics/quadratics; distinct by '
        'the full tuple; non-trivial if the construction monitor reached a verdict')
RULE += '; arcs constructed in -1/-2 pairs (equal hashes, different geometry)'
ASSUMPTIONS = ['vt/ref/arc.py implements F.6.5/F.6.6 correctly (math module only)',
               'arcs whose squares leave the normal double range are not generated',
               'where the centre is ill-conditioned (Lambda within 1e-6 of 1, or radii auto-enlarged so that the end points '
               'are antipodal and acos is evaluated at -1) points are compared to 1e-6*size instead of 1e-9*size']
TIERS = {
    'quick': {'shards': 14, 'grid_stride': 5, 'random': 9000, 'timeout': 600, 'min_cases': 6000,
              'require_branches': ['lam:scaled', 'lam:fits', 'lam:band', 'flags:00', 'flags:01', 'flags:10', 'flags:11',
                                   'delta:>180', 'delta:<180', 'neg-radius', 'via:parser', 'via:cropped', 'hash-twin-pair']},
    'thorough': {'shards': 14, 'grid_stride': 1, 'random': 400000, 'timeout': 3000, 'min_cases': 100000,
                 'require_branches': ['lam:scaled', 'lam:fits', 'lam:band', 'flags:00', 'flags:01', 'flags:10', 'flags:11',
                                      'delta:>180', 'delta:<180', 'neg-radius', 'via:parser', 'via:cropped', 'hash-twin-pair']},
}
EPS = gen.EPS
TS = [0, 1, 0.25, 0.5, 0.75, 0.123456789, 0.987654321]


def _fields(a):
    return (a.start, a.end, a.radius, a.rotation, a.large_arc, a.sweep)


def _lamclass(ref):
    # 'band': Lambda so close to 1 that rounding decides whether the library sees
    # it as fitting or not, and the centre is sqrt(rounding)-conditioned
    if ref.lam > 1 + 1e-12:
        return 'scaled'
    if ref.lam > 1 - 1e-6:
        return 'band'
    return 'fits'


def post_init(call):
    ctx = core.CTX
    a = call.a
    self = call.args[0]
    start, end, radius = a['start'], a['end'], a['radius']
    try:
        start, end = complex(start), complex(end)
        rx0, ry0 = float(radius.real), float(radius.imag)
        rot = float(a['rotation'])
    except (TypeError, ValueError):
        return False
    if not a.get('autoscale_radius', True):
        return False
    mags = [abs(rx0), abs(ry0), abs(end - start)]
    if min(mags) < 1e-140 or max(mags + [abs(start), abs(end)]) > 1e140:
        ctx.skip('arc magnitudes outside 1e-140..1e140')
        return False
    ref = RA.endpoint_to_center(start, rx0, ry0, rot, a['large_arc'], a['sweep'], end)
    size = ref.size
    lc = _lamclass(ref)
    self.__dict__['_vt_ref'] = (ref, _fields(self), lc)
    ctx.verdict()
    ctx.branch('lam:' + lc)
    ctx.branch('flags:%d%d' % (bool(a['large_arc']), bool(a['sweep'])))
    if rx0 < 0 or ry0 < 0:
        ctx.branch('neg-radius')
    tag = '%s/flags%d%d' % (lc, bool(a['large_arc']), bool(a['sweep']))
    # --- radii ----------------------------------------------------------
    rx, ry = self.radius.real, self.radius.imag
    if abs(ref.lam - 1) < 1e-9:
        ok = abs(rx - ref.rx) <= 4e-9 * ref.rx and abs(ry - ref.ry) <= 4e-9 * ref.ry
    elif ref.scaled:
        # Lambda is a sum of squares of rotated half-chords over radii: for eccentric, rotated ellipses the rotation
        # cancels digits (up to ~eccentricity), so "exactly the minimal factor" is demanded to 1e-10, not to a few ulp
        ok = abs(rx - ref.rx) <= 1e-10 * ref.rx and abs(ry - ref.ry) <= 1e-10 * ref.ry
    else:
        ok = (rx == abs(rx0) and ry == abs(ry0))
    if not ok:
        ctx.violation('radius/' + tag, 'stored radius is not the (minimally enlarged) input radius',
                      {'stored': repr(self.radius), 'reference': (ref.rx, ref.ry), 'lambda': ref.lam})
    # --- centre ---------------------------------------------------------
    # the centre sits at the end of a lever of length r over a base of length chord
    rmax = max(ref.rx, ref.ry, abs(end - start))
    lever = 64 * EPS * (abs(start) + abs(end)) * rmax / abs(end - start)
    if lc == 'fits':
        ctol = 1e-9 * rmax / max(math.sqrt(1 - ref.lam), 1e-3) + lever
    elif lc == 'scaled':
        ctol = 1e-9 * rmax + lever
    else:
        ctol = None
    if ctol is not None and not (abs(self.center - complex(ref.cx, ref.cy)) <= ctol):
        ctx.violation('center/' + tag, 'centre differs from F.6.5',
                      {'center': repr(self.center), 'reference': (ref.cx, ref.cy), 'lambda': ref.lam})
    # --- direction and extent -----------------------------------------
    d = float(self.delta)
    if d != 0 and (d > 0) != bool(a['sweep']):
        ctx.violation('sweep-direction/' + tag, 'sign of delta contradicts the sweep flag',
                      {'delta': d, 'sweep': bool(a['sweep']), 'reference_delta': ref.dtheta})
    if abs(abs(ref.dtheta) - 180) > 1e-6 and lc == 'fits':
        ctx.branch('delta:>180' if abs(ref.dtheta) > 180 else 'delta:<180')
        if (abs(d) > 180) != bool(a['large_arc']):
            ctx.violation('large-arc/' + tag, '|delta| > 180 does not match large_arc',
                          {'delta': d, 'large_arc': bool(a['large_arc'])})
    if not (abs(d) <= 360 + 1e-9):
        ctx.violation('delta-range/' + tag, '|delta| exceeds 360', {'delta': d})
    # --- end points and interior points against the reference ----------
    # the centre of a nearly exactly fitting ellipse is sqrt(rounding)-conditioned (DESIGN 3.3)
    ptol = (1e-6 if lc == 'band' else 1e-9) * size + 256 * EPS * (abs(start) + abs(end) + abs(complex(ref.cx, ref.cy)))
    for t in (0, 1, 0.3, 0.7):
        got = self.point(t)
        want = ref.point(t)
        if t == 0:
            want = start
        elif t == 1:
            want = end
        if not (abs(complex(got) - want) <= ptol):
            ctx.violation('point-vs-F65/%s/t=%s' % (tag, t if t in (0, 1) else 'interior'),
                          'point(%s) differs from the arc defined by F.6.5' % t,
                          {'got': repr(got), 'want': repr(want), 'tol': ptol, 'lambda': ref.lam,
                           'theta': float(self.theta), 'delta': d, 'ref_theta': ref.theta1, 'ref_delta': ref.dtheta})
            break
    return True


def _on_ellipse(self, z):
    w = (z - self.center) * np.exp(-1j * math.radians(self.rotation))
    return (w.real / self.radius.real) ** 2 + (w.imag / self.radius.imag) ** 2


def post_point(call):
    ctx = core.CTX
    self = call.args[0]
    t = call.a.get('t')
    if not isinstance(t, (int, float, np.floating, np.integer)):
        return False
    st = self.__dict__.get('_vt_ref')
    if st is None or st[1] != _fields(self):
        ctx.skip('arc without a construction record (or mutated since)')
        return False
    ref, _, lc = st
    z = complex(call.ret)
    ctx.verdict()
    e = _on_ellipse(self, z)
    if not (abs(e - 1) <= 1e-9):
        ctx.violation('off-ellipse/' + lc, 'point(t) is not on the ellipse of the stored centre/radii/rotation',
                      {'t': float(t), 'ellipse_eq': float(e)})
    ptol = (1e-6 if lc == 'band' else 1e-9) * ref.size + 256 * EPS * (abs(self.start) + abs(self.end) + abs(self.center))
    if 0 <= t <= 1 and not (abs(z - ref.point(float(t))) <= ptol):
        ctx.violation('point-param/' + lc, 'point(t) is not the point at eccentric angle theta1 + t*dtheta of F.6.5',
                      {'t': float(t), 'got': repr(z), 'want': repr(ref.point(float(t))), 'tol': ptol})
    return True


def post_derivative(call):
    ctx = core.CTX
    self = call.args[0]
    t, n = call.a.get('t'), call.a.get('n', 1)
    if not isinstance(t, (int, float, np.floating, np.integer)) or not isinstance(n, (int, np.integer)) or n < 1:
        return False
    # the n-th t-derivative of the arc's own point(t) = centre + R(phi)(rx cos a, ry sin a), a = rad(theta + t delta)
    k = math.radians(float(self.delta))
    ang = math.radians(float(self.theta) + float(t) * float(self.delta)) + n * math.pi / 2
    c, s = math.cos(math.radians(self.rotation)), math.sin(math.radians(self.rotation))
    x, y = self.radius.real * math.cos(ang), self.radius.imag * math.sin(ang)
    want = (k ** n) * complex(c * x - s * y, s * x + c * y)
    scale = abs(k) ** n * max(self.radius.real, self.radius.imag)
    ctx.verdict()
    if not (abs(complex(call.ret) - want) <= 1e-9 * scale):
        ctx.violation('derivative/n%%4=%d' % (n % 4), 'derivative(t, %d) is not the n-th t-derivative of point(t)' % n,
                      {'t': float(t), 'n': int(n), 'got': repr(call.ret), 'want': repr(want)})
    return True


def _post_approx(kind):
    def post(call):
        ctx = core.CTX
        self = call.args[0]
        curves = call.a.get('curves', 1)
        import svgpathtools.path as P
        orig = monitor.MONITORS['Arc.as_%s_curves' % kind].orig
        pieces = list(orig(self, curves))
        want = P.CubicBezier if kind == 'cubic' else P.QuadraticBezier
        ctx.verdict()
        key = 'approx-%s' % kind
        if len(pieces) != curves or any(type(p) is not want for p in pieces):
            ctx.violation(key + '/count-or-type', 'as_%s_curves(%d) returned %d pieces' % (kind, curves, len(pieces)))
            return True
        if not (pieces[0].start == self.start):
            ctx.violation(key + '/start', 'approximation does not start at the arc start')
        if not (pieces[-1].end == self.end):
            ctx.violation(key + '/end', 'approximation does not end at the arc end')
        for p, q in zip(pieces, pieces[1:]):
            if not (p.end == q.start):
                ctx.violation(key + '/joint', 'consecutive approximation pieces are not joined')
                break
        # interior knots lie on the arc (they are computed from the centre parameterisation)
        size = max(self.radius.real, self.radius.imag)
        for i, p in enumerate(pieces[:-1]):
            if not (abs(p.end - self.point((i + 1) / float(curves))) <= 1e-6 * size):
                ctx.violation(key + '/knot', 'interior knot %d of the approximation is not on the arc' % i)
                break
        return True
    return post


def install(ctx):
    import svgpathtools.path as P
    monitor.install(P.Arc, '__init__', post=post_init)
    monitor.install(P.Arc, 'point', post=post_point)
    monitor.install(P.Arc, 'derivative', post=post_derivative)
    monitor.install(P.Arc, 'as_cubic_curves', post=_post_approx('cubic'))
    monitor.install(P.Arc, 'as_quad_curves', post=_post_approx('quad'))


# --------------------------------------------------------------------------
ROTS = [0, 90, 180, 270, -90, 360, 450, 33.3, -725.5, 'rnd']
LAMS = [1e-4, 1 - 1e-6, 1 - 1e-12, 'exact', 1 + 1e-12, 1 + 1e-6, 4.0, 1e4, 0.3, 0.9]
SIGNS = [(1, 1), (-1, 1), (1, -1)]
ECC = [1.0, 2.0, 1e3]
HEAD = [0, 45, 90, 135, 180, 225, 270, 315]


def _make(rng, fa, fs, rot, lamt, sign, ecc, head, scale=1.0):
    if rot == 'rnd':
        rot = rng.uniform(-720, 720)
    chord = scale * rng.choice([1.0, 2.0, 3.5, 10.0])
    start = complex(rng.randint(-8, 8), rng.randint(-8, 8)) * scale
    end = start + chord * complex(math.cos(math.radians(head)), math.sin(math.radians(head)))
    if lamt == 'exact':
        # representable numbers with Lambda exactly 1: circle of radius chord/2 on an axis-aligned chord
        head = rng.choice([0, 90, 180, 270])
        end = start + chord * complex(round(math.cos(math.radians(head))), round(math.sin(math.radians(head))))
        rx = ry = chord / 2
        rot = rng.choice([0, 90, 180])
    else:
        # choose radii with ratio ecc such that Lambda (at unit radii) scales to the target
        lam1 = RA.lam_of(start, end, 1.0, ecc, rot)
        k = math.sqrt(lam1 / lamt)
        rx, ry = k, k * ecc
    return ['A', [start.real, start.imag], [sign[0] * rx, sign[1] * ry], rot, bool(fa), bool(fs),
            [end.real, end.imag]]


def cases(ctx):
    rng = ctx.rng
    plan = TIERS[ctx.tier]
    idx = 0
    stride = plan['grid_stride']
    for fa in (0, 1):
        for fs in (0, 1):
            for rot in ROTS:
                for lamt in LAMS:
                    for sign in SIGNS:
                        for ecc in ECC:
                            for head in HEAD:
                                idx += 1
                                if idx % stride or (idx // stride) % ctx.nshards != ctx.shard:
                                    continue
                                r = __import__('random').Random('C04/grid/%d/%d' % (ctx.seed, idx))
                                spec = _make(r, fa, fs, rot, lamt, sign, ecc, head)
                                if spec[1] == spec[6]:
                                    continue
                                yield {'kind': 'arc', 'arc': spec,
                                       'cls': ['grid', 'lamtarget:%s' % lamt, 'ecc:%g' % ecc]}
    n = plan['random'] // ctx.nshards
    for i in range(n):
        scale = 10.0 ** rng.uniform(-3, 5)
        if rng.random() < 0.5:
            spec = _make(rng, rng.randint(0, 1), rng.randint(0, 1), rng.choice(ROTS),
                         10.0 ** rng.uniform(-4, 4) if rng.random() < 0.8 else rng.choice(LAMS),
                         rng.choice(SIGNS), 10.0 ** rng.uniform(0, 3), rng.uniform(0, 360), scale)
        else:
            s = gen.scaled_point(rng, scale)
            e = gen.scaled_point(rng, scale)
            spec = ['A', [s.real, s.imag], [rng.uniform(0.01, 3) * scale, rng.uniform(0.01, 3) * scale],
                    rng.uniform(-400, 400), rng.random() < 0.5, rng.random() < 0.5, [e.real, e.imag]]
        cls = ['random']
        if rng.random() < 0.04:
            # integer-like arcs in -1 / -2 pairs
            which = rng.choice(['sx', 'sy', 'ex', 'ey', 'rot'])
            base = ['A', [float(rng.randint(-9, 9)), float(rng.randint(-9, 9))], [float(rng.randint(1, 12)), float(rng.randint(1, 12))],
                    float(rng.choice([0, 30, 45, -1])), rng.random() < 0.5, rng.random() < 0.5,
                    [float(rng.randint(10, 30)), float(rng.randint(-9, 9))]]

            def with_val(v):
                sp = [base[0], list(base[1]), list(base[2]), base[3], base[4], base[5], list(base[6])]
                if which == 'rot':
                    sp[3] = float(v)
                else:
                    sp[{'s': 1, 'e': 6}[which[0]]][{'x': 0, 'y': 1}[which[1]]] = float(v)
                return sp
            va, vb = rng.choice([(-1, -2), (-2, -1)])
            if any(sp[1] == sp[6] for sp in (with_val(va), with_val(vb))):
                continue
            yield {'kind': 'arc', 'arc': with_val(vb), 'twin': with_val(va), 'cls': ['hash-twin']}
            continue
        if rng.random() < 0.15:
            # very short arcs: chord/radius down to 1e-12 (what Path.cropped produces next to a joint)
            s = gen.scaled_point(rng, scale)
            r = scale * rng.uniform(0.5, 50)
            e = s + r * 10.0 ** rng.uniform(-12, -3) * complex(math.cos(i), math.sin(i))
            spec = ['A', [s.real, s.imag], [r, r * rng.choice([1.0, 0.5, 3.0])], rng.uniform(-180, 180),
                    False, rng.random() < 0.5, [e.real, e.imag]]
            cls = ['random', 'tiny-extent']
        if spec[1] == spec[6]:
            continue
        yield {'kind': 'arc', 'arc': spec, 'cls': cls}


def run_case(ctx, case):
    from svgpathtools import parse_path, Path
    spec = case['arc']
    if case.get('twin') is not None:
        # an arc that differs from one constructed just before only in a -1 / -2 (CPython: hash(-1) == hash(-2), so
        # the two have equal hashes and unequal geometry); each is judged from its own constructor arguments
        ctx.branch('hash-twin-pair')
        first = gen.seg(case['twin'])
        first.point(0.3)
        first.length()
    a = gen.seg(spec)
    for t in TS:
        a.point(t)
    for t in (0, 0.37, 1):
        for n in range(1, 9):
            a.derivative(t, n)
    for k in (1, 2, 5):
        list(a.as_cubic_curves(k))
        list(a.as_quad_curves(k))
    # constructions the library performs itself
    d = Path(a).d()
    ctx.branch('via:parser')
    p = parse_path(d)
    for t in (0, 0.5, 1):
        p[0].point(t)
    r = a.reversed()
    r.point(0.5)
    t0, t1 = sorted([ctx.rng.uniform(0, 1), ctx.rng.uniform(0, 1)]) if False else (0.2, 0.65)
    ctx.branch('via:cropped')
    c = a.cropped(t0, t1)
    c.point(0.5)
    a.split(0.4)
    a.rotated(37.0, origin=1 + 2j).point(0.5)
    a.translated(3 - 4j).point(0.5)
    a.scaled(2.5).point(0.5)
    if ctx.tier == 'thorough' or ctx.cases % 10 == 0:
        pp = Path(a)
        pp.approximate_arcs_with_cubics()
        pp = Path(a)
        pp.approximate_arcs_with_quads()


def crash_key(ctx, case, e, site):
    return 'crash/%s@%s' % (type(e).__name__, site)


REGISTER = True
TECHNIQUE = 'runtime monitors on Arc.__init__/point/derivative/as_*_curves compared with an independent F.6.5 implementation; grid over flags x rotation x Lambda class x radius sign x eccentricity x heading + random arcs'
LEVEL_TEXT = ('Every Arc constructed anywhere during the workload (directly, by the parser, by reversed/cropped/split/rotated/translated/scaled) '
              'is compared at construction with an independent implementation of W3C F.6.5/F.6.6: radii (unchanged or minimally enlarged), centre, '
              'sweep direction, large-arc extent, end points and interior points; every point(t) must lie on the stored ellipse and at the reference '
              'eccentric angle; derivative(t,n), n=1..8, must be the n-th t-derivative of point(t); cubic/quadratic approximations must start/end at '
              'the end points and be joined. Grid of 28.8k parameter combinations (every 5th in quick) + random arcs.')
LEVEL_NOTE = 'Trusts vt/ref/arc.py and the tolerances stated in DESIGN.md 3.3 for ill-conditioned centres; parameter combinations not generated are not covered.'
