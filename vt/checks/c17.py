"""C17 - SVG flattening applies shape conversion and nested transforms per the SVG spec.

Monitors: flattened_paths, flattened_paths_from_group (Document.paths / paths_from_group
          delegate), svg2paths, SaxDocument.flatten_all_paths, parse_transform and the shape
          converters ellipse2pathd / rect2pathd / polyline2pathd / polygon2pathd / line2pathd.
Oracle  : vt/ref/flatten.py - an independent flattener (own transform-list parser, spec shape
          geometry with clamped corner radii, ancestors composed outermost first).
"""
import io
import math
import os
import random

import numpy as np

from .. import core, gen, monitor
from ..ref import flatten as RF

PROP = 'C17'
CONFIGS = ['scipy']
DECIDING = ['document.flattened_paths', 'document.flattened_paths_from_group', 'svg_to_paths.svg2paths',
            'SaxDocument.flatten_all_paths', 'parser.parse_transform', 'svg_to_paths.rect2pathd',
            'svg_to_paths.ellipse2pathd', 'svg_to_paths.polygon2pathd', 'svg_to_paths.polyline2pathd',
            'svg_to_paths.line2pathd']
ANCHORED = ['flattened_paths', 'flattened_paths_from_group', 'parse_transform', '_parse_transform_substr', '2pathd',
            'svg2paths', 'sax_parse', 'flatten_all_paths']
RULE = ('cases = one generated SVG document: a tree of nested svg:g groups (depth <= 5, <= 12 leaves) with transform lists of 0-3 '
        'items (all six kinds, random arguments) on groups and leaves, leaves of every supported kind (rect plain / rx only / ry only / '
        'both / radius larger than half a side, circle, ellipse, line with some coordinates omitted, polyline / polygon with comma, '
        'space and sign separators, path), element order shuffled; read by Document.paths, Document.paths_from_group, svg2paths and '
        'SaxDocument; distinct by document text; non-trivial if a reader result was compared with the reference flattener')
RULE += '; a single oversized rect radius, mirror transforms with equal magnitudes; transform arguments in every number spelling of the grammar (.5, -.5, 5., +5, 5e0) in the lexical-variant documents'
ASSUMPTIONS = ['vt/ref/flatten.py implements the SVG shape and transform semantics correctly',
               'curved shapes are compared as point sets: two-sided polyline distance <= 1e-6 of the (transformed) size; straight-edged shapes '
               'additionally by their defining points (64*eps*|M|*size + 1e-9*size)',
               'svg2paths ignores transforms by design and is compared with the untransformed reference']
TIERS = {
    'quick': {'shards': 14, 'random': 700, 'timeout': 900, 'min_cases': 450,
              'require_branches': ['reader:Document.paths', 'reader:paths_from_group', 'reader:svg2paths', 'reader:SaxDocument',
                                   'tf:matrix', 'tf:rotate3', 'tf:skewX', 'tf:skewY', 'tf:scale1', 'tf:translate1',
                                   'shape:rect-rounded', 'shape:rect-radius-clamped', 'shape:rect-one-radius-clamped', 'shape:line-defaults',
                                   'shape:ellipse', 'nesting>=3']},
    'thorough': {'shards': 14, 'random': 24000, 'timeout': 3400, 'min_cases': 12000,
                 'require_branches': ['reader:Document.paths', 'reader:paths_from_group', 'reader:svg2paths',
                                      'reader:SaxDocument', 'tf:matrix', 'tf:rotate3', 'tf:skewX', 'tf:skewY',
                                      'tf:scale1', 'tf:translate1', 'shape:rect-rounded', 'shape:rect-radius-clamped', 'shape:rect-one-radius-clamped',
                                      'shape:line-defaults', 'shape:ellipse', 'nesting>=3']},
}
CASE_TIMEOUT = 60
EPS = gen.EPS
SVGNS = 'http://www.w3.org/2000/svg'


# --------------------------------------------------------------------------
# comparing a library Path with reference pieces

def lib_polylines(path):
    """one polyline per segment (never merged: sub-sampling a merged run would cut its corners)"""
    out = []
    for s in path:
        n = 4096 if type(s).__name__ == 'Arc' else (2 if type(s).__name__ == 'Line' else 2048)
        out.append(np.asarray(s.point(np.linspace(0, 1, n)), dtype=complex))
    return out


def compare_geometry(path, pieces, size, normM=1.0, M=None):
    """None or (kind, detail)"""
    # rounding of  M*p + t  is relative to the magnitude of the terms, not to the extent of the shape (a zero-extent
    # shape - e.g. a <line> whose defaulted end points coincide - far from the origin still moves by ulps)
    ref_pts = [np.asarray(r, dtype=complex) for r in RF.pieces_polyline(pieces)]
    mag = max([float(np.abs(r).max()) for r in ref_pts if len(r)] or [0.0])
    if M is not None:
        mag += abs(complex(M[0, 2], M[1, 2]))
    rnd = 512 * EPS * mag * max(1.0, normM)
    if pieces and all(p[0] == 'bez' for p in pieces):
        # a path element made of L/Q/C commands: segment by segment, control point by control point
        if len(path) != len(pieces):
            return ('segments', '%d segments, reference %d' % (len(path), len(pieces)))
        ptol = 64 * EPS * normM * size + 1e-9 * size + rnd
        for k, (s, p) in enumerate(zip(path, pieces)):
            want = {2: 'Line', 3: 'QuadraticBezier', 4: 'CubicBezier'}[len(p[1])]
            if type(s).__name__ != want:
                return ('kind', 'segment %d is a %s, reference %s' % (k, type(s).__name__, want))
            for x, y in zip(s.bpoints(), p[1]):
                if abs(complex(x) - y) > ptol:
                    return ('control-points', 'segment %d: control point %r should be %r' % (k, x, y))
        return None
    ref = RF.pieces_polyline(pieces)
    if len(path) == 0:
        if all(len(r) <= 1 for r in ref):
            return None
        return ('missing', 'library returned an empty path')
    lib = lib_polylines(path)
    tol = 1e-6 * size + rnd
    d1 = RF.directed(lib, ref)
    if d1 > tol:
        return ('outside-shape', 'a point of the returned path is %.3g away from the element\'s geometry (tol %.3g)' % (d1, tol))
    d2 = RF.directed(ref, lib)
    if d2 > tol:
        return ('shape-not-covered', 'a point of the element\'s geometry is %.3g away from the returned path (tol %.3g)' % (d2, tol))
    # straight-edged shapes: the defining points, in order
    if all(p[0] == 'poly' for p in pieces):
        want = []
        for p in pieces:
            pts = list(p[1])
            if p[2] and pts:
                pts = pts + [pts[0]]
            want.append(pts)
        got = []
        run = None
        for s in path:
            if type(s).__name__ != 'Line':
                return ('kind', 'a straight-edged element produced a %s' % type(s).__name__)
            if run is not None and s.start == run[-1]:
                run.append(complex(s.end))
            else:
                if run is not None:
                    got.append(run)
                run = [complex(s.start), complex(s.end)]
        if run:
            got.append(run)
        # drop zero-length closing edges on both sides (a polygon whose last point repeats the first)
        def norm(runs):
            out = []
            for r in runs:
                q = [r[0]]
                for z in r[1:]:
                    if z != q[-1]:
                        q.append(z)
                if len(q) > 1:
                    out.append(q)
            return out
        gw, gg = norm(want), norm(got)
        ptol = 64 * EPS * normM * size + 1e-9 * size + rnd
        if len(gw) != len(gg) or any(len(a) != len(b) for a, b in zip(gw, gg)):
            return ('vertices', 'vertex sequence differs: %s vs reference %s' % ([len(x) for x in gg], [len(x) for x in gw]))
        for a, b in zip(gw, gg):
            for x, y in zip(a, b):
                if abs(x - y) > ptol:
                    return ('vertices', 'vertex %r should be %r' % (y, x))
    return None


def ref_size(pieces):
    pts = np.concatenate([np.asarray(p, dtype=complex) for p in RF.pieces_polyline(pieces)] or [np.array([0j])])
    if len(pts) == 0:
        return 1.0
    return max(abs(complex(np.ptp(pts.real), np.ptp(pts.imag))), 1e-12)


def elem_class(el):
    tag = el.tag.split('}')[-1]
    a = el.attrib
    if tag == 'rect':
        if 'rx' in a or 'ry' in a:
            try:
                w, h = float(a.get('width', 0)), float(a.get('height', 0))
                rx = float(a.get('rx', a.get('ry', 0)))
                ry = float(a.get('ry', a.get('rx', 0)))
                if rx > w / 2 or ry > h / 2:
                    return 'rect-one-radius-clamped' if ('rx' in a) != ('ry' in a) else 'rect-radius-clamped'
            except ValueError:
                pass
            if ('rx' in a) != ('ry' in a):
                return 'rect-one-radius'
            return 'rect-rounded'
        return 'rect-plain'
    if tag == 'line' and not all(k in a for k in ('x1', 'y1', 'x2', 'y2')):
        return 'line-defaults'
    return tag


def tf_features(el_chain):
    """lexical/semantic features of the transform attributes along the ancestor chain (mechanism keys)"""
    feats = set()
    for el in el_chain:
        t = el.get('transform')
        if not t:
            continue
        if '\t' in t or '\n' in t:
            feats.add('tf-tab-newline-separator')
        import re
        if re.search(r'[0-9.]-', t.replace('e-', 'e').replace('E-', 'E')):
            feats.add('tf-sign-as-separator')
    return sorted(feats)


def judge_flat(ctx, reader, results_by_el, root, chain_of):
    """results_by_el: {element: Path} ; reference from root"""
    ref = RF.flatten(root)
    ctx.verdict()
    seen = 0
    for el, M, pieces in ref:
        cls = elem_class(el)
        feats = tf_features(chain_of(el))
        fkey = ('/' + '+'.join(feats)) if feats else ''
        if isinstance(pieces, RF.Unsupported):
            ctx.skip('reference does not cover this element: ' + str(pieces)[:40])
            continue
        ctx.branch('shape:' + cls)
        path = results_by_el.get(el)
        if path is None:
            ctx.violation('%s/element-missing/%s%s' % (reader, cls, fkey),
                          '%s did not return a path for a %s element' % (reader, cls), {'id': el.get('id')})
            continue
        seen += 1
        size = ref_size(pieces)
        normM = float(np.linalg.norm(M[:2, :2], 2)) if M is not None else 1.0
        res = compare_geometry(path, pieces, size, normM, M)
        if res is not None:
            ctx.violation('%s/%s/%s%s' % (reader, res[0], cls, fkey),
                          '%s: path of a %s element differs from the SVG reference: %s' % (reader, cls, res[1]),
                          {'id': el.get('id'), 'attrib': dict(el.attrib), 'matrix': M.tolist() if M is not None else None,
                           'transforms': [e.get('transform') for e in chain_of(el) if e.get('transform')]})
    extra = [el for el in results_by_el if not any(el is r[0] for r in ref)]
    if extra:
        ctx.violation('%s/extra-paths' % reader, '%s returned paths for elements the reference does not flatten' % reader,
                      {'tags': [e.tag for e in extra][:5]})
    return seen


def _chain_fn(root):
    parent = {}
    for p in root.iter():
        for c in p:
            parent[c] = p

    def chain(el):
        out = [el]
        while out[-1] in parent:
            out.append(parent[out[-1]])
        return out[::-1]
    return chain


def post_flattened_paths(call):
    ctx = core.CTX
    if call.depth > 0:
        return False
    group = call.a.get('group')
    a = call.a
    import svgpathtools.document as D
    if a.get('path_conversions') is not D.CONVERSIONS or a.get('group_search_xpath') != D.SVG_GROUP_TAG:
        return False
    try:
        if not (a['group_filter'](group) and True):
            return False
    except Exception:
        return False
    # only default (accept-all) filters are judged
    probe = object()
    try:
        if a['group_filter'](probe) is not True or a['path_filter'](probe) is not True:
            return False
    except Exception:
        return False
    ctx.branch('reader:Document.paths')
    res = {}
    for p in call.ret:
        res[p.element] = p
    judge_flat(ctx, 'flattened_paths', res, group, _chain_fn(group))
    return True


def exc_flattened_paths(call):
    ctx = core.CTX
    if call.depth > 0:
        return False
    group = call.a.get('group')
    ctx.verdict()
    feats = sorted({f for el in group.iter() for f in tf_features([el])})
    classes = sorted({elem_class(el) for el in group.iter() if el.tag.split('}')[-1] in RF.SHAPES})
    # which element classes can be blamed?  keep the key structural: exception type + lexical features
    ctx.violation('flattened_paths/raises/%s%s' % (type(call.exc).__name__, ('/' + '+'.join(feats)) if feats else ''),
                  'flattening a valid document raised %s: %s' % (type(call.exc).__name__, str(call.exc)[:100]),
                  {'classes': classes})
    return True


def post_from_group(call):
    ctx = core.CTX
    a = call.a
    group, root = a.get('group_to_flatten'), a.get('root')
    if not a.get('recursive', True):
        return False
    ctx.branch('reader:paths_from_group')
    ref = RF.flatten(root)
    inside = set(id(e) for e in group.iter())
    ctx.verdict()
    got = {p.element: p for p in call.ret}
    chain = _chain_fn(root)
    for el, M, pieces in ref:
        if isinstance(pieces, RF.Unsupported):
            continue
        want_in = id(el) in inside
        if want_in and el not in got:
            ctx.violation('paths_from_group/element-missing', 'an element inside the group was not returned', {'id': el.get('id')})
            return True
        if not want_in and el in got:
            ctx.violation('paths_from_group/foreign-element', 'an element outside the group was returned', {'id': el.get('id')})
            return True
        if want_in:
            res = compare_geometry(got[el], pieces, ref_size(pieces), float(np.linalg.norm(M[:2, :2], 2)), M)
            if res is not None:
                feats = tf_features(chain(el))
                ctx.violation('paths_from_group/%s/%s%s' % (res[0], elem_class(el), ('/' + '+'.join(feats)) if feats else ''),
                              'paths_from_group: path differs from the reference (ancestor transforms must apply): ' + res[1],
                              {'id': el.get('id')})
                return True
    return True


def post_parse_transform(call):
    ctx = core.CTX
    s = call.a.get('transform_str')
    if not s or not isinstance(s, str):
        return False
    try:
        want = RF.parse_transform_list(s)
    except RF.Unsupported:
        ctx.skip('transform list outside the reference grammar')
        return False
    ctx.verdict()
    for name in ('matrix', 'skewX', 'skewY'):
        if name in s:
            ctx.branch('tf:' + name)
    import re
    for m in re.finditer(r'(rotate|scale|translate)\s*\(([^)]*)\)', s):
        ctx.branch('tf:%s%d' % (m.group(1), len(RF.numbers(m.group(2)))))
    got = np.asarray(call.ret, dtype=float)
    scale = max(1.0, float(np.abs(want).max()))
    if got.shape != (3, 3) or not np.all(np.abs(got - want) <= 1e-9 * scale):
        kinds = sorted(set(re.findall(r'(matrix|translate|scale|rotate|skewX|skewY)', s)))
        feats = []
        if '\t' in s or '\n' in s:
            feats.append('tab-newline-separator')
        if re.search(r'[0-9.]-', s.replace('e-', 'e').replace('E-', 'E')):
            feats.append('sign-as-separator')
        ctx.violation('parse_transform/%s%s' % ('+'.join(kinds), ('/' + '+'.join(feats)) if feats else ''),
                      'parse_transform differs from the SVG transform semantics',
                      {'transform': s, 'got': got.tolist(), 'want': want.tolist()})
    return True


def exc_parse_transform(call):
    ctx = core.CTX
    s = call.a.get('transform_str')
    if not isinstance(s, str):
        return False
    try:
        RF.parse_transform_list(s)
    except RF.Unsupported:
        return False
    ctx.verdict()
    import re
    feats = []
    if '\t' in s or '\n' in s:
        feats.append('tab-newline-separator')
    if re.search(r'[0-9.]-', s.replace('e-', 'e').replace('E-', 'E')):
        feats.append('sign-as-separator')
    ctx.violation('parse_transform/raises/%s%s' % (type(call.exc).__name__, ('/' + '+'.join(feats)) if feats else ''),
                  'parse_transform raised %s on a valid transform list' % type(call.exc).__name__, {'transform': s})
    return True


def _converter_post(tag_of):
    def post(call):
        ctx = core.CTX
        el = call.args[0]
        if isinstance(el, str):
            return False
        attrib = dict(el.attrib) if hasattr(el, 'attrib') else dict(el)
        tag = tag_of(call, attrib)
        try:
            pieces = RF.element_geometry(tag, attrib)
        except (RF.Unsupported, Exception) as e:   # noqa
            ctx.skip('converter input outside the reference: %s' % type(e).__name__)
            return False
        try:
            got_pieces, segs = RF.path_pieces(call.ret)
        except Exception as e:   # noqa
            ctx.verdict()
            ctx.violation('converter/%s/ungrammatical' % tag, 'converter returned a string the reference tokenizer rejects',
                          {'d': str(call.ret)[:200]})
            return True
        ctx.verdict()
        size = ref_size(pieces)
        A, B = RF.pieces_polyline(got_pieces), RF.pieces_polyline(pieces)
        d = max(RF.directed(A, B), RF.directed(B, A))
        if d > 1e-6 * size:
            cls = tag
            if tag == 'rect' and ('rx' in attrib or 'ry' in attrib):
                try:
                    w, h = float(attrib.get('width', 0)), float(attrib.get('height', 0))
                    rx = float(attrib.get('rx', attrib.get('ry', 0)))
                    ry = float(attrib.get('ry', attrib.get('rx', 0)))
                    cls = 'rect-radius-clamped' if (rx > w / 2 or ry > h / 2) else 'rect-rounded'
                except ValueError:
                    cls = 'rect-rounded'
            ctx.violation('converter/%s/geometry' % cls, 'the converter\'s d-string is not the element\'s geometry (distance %.3g)' % d,
                          {'attrib': attrib, 'd': str(call.ret)[:200]})
        return True
    return post


def post_svg2paths(call):
    ctx = core.CTX
    loc = call.a.get('svg_file_location')
    flags = [call.a.get(k, True) for k in ('convert_circles_to_paths', 'convert_ellipses_to_paths', 'convert_lines_to_paths',
                                            'convert_polylines_to_paths', 'convert_polygons_to_paths',
                                            'convert_rectangles_to_paths')]
    if not all(flags):
        return False
    text = SRC.get('text')
    if text is None:
        return False
    import xml.etree.ElementTree as ET
    root = ET.fromstring(text)
    ctx.branch('reader:svg2paths')
    paths, attrs = call.ret[0], call.ret[1]
    ctx.verdict()
    order = []
    for tag in ('path', 'polyline', 'polygon', 'line', 'ellipse', 'circle', 'rect'):
        order += [el for el in root.iter('{%s}%s' % (SVGNS, tag))]
    if len(paths) != len(order) or len(attrs) != len(order):
        ctx.violation('svg2paths/count', 'svg2paths returned %d paths for %d supported elements' % (len(paths), len(order)))
        return True
    for el, p, at in zip(order, paths, attrs):
        if at.get('id') != el.get('id'):
            ctx.violation('svg2paths/order', 'paths are not in tag-grouped document order')
            return True
        try:
            pieces = RF.element_geometry(el.tag.split('}')[-1], el.attrib)      # untransformed by design
        except RF.Unsupported:
            continue
        res = compare_geometry(p, pieces, ref_size(pieces))
        if res is not None:
            ctx.violation('svg2paths/%s/%s' % (res[0], elem_class(el)),
                          'svg2paths: path of a %s differs from the (untransformed) SVG reference: %s' % (elem_class(el), res[1]),
                          {'id': el.get('id'), 'attrib': dict(el.attrib)})
            return True
    return True


def exc_svg2paths(call):
    ctx = core.CTX
    text = SRC.get('text')
    if text is None:
        return False
    import xml.etree.ElementTree as ET
    root = ET.fromstring(text)
    classes = sorted({elem_class(el) for el in root.iter() if el.tag.split('}')[-1] in RF.SHAPES})
    ctx.verdict()
    blame = [c for c in classes if c in ('line-defaults',)]
    ctx.violation('svg2paths/raises/%s%s' % (type(call.exc).__name__, ('/' + '+'.join(blame)) if blame else ''),
                  'svg2paths raised %s on a valid document: %s' % (type(call.exc).__name__, str(call.exc)[:80]),
                  {'classes': classes})
    return True


def post_sax(call):
    ctx = core.CTX
    doc = call.args[0]
    text = SRC.get('text')
    if text is None:
        return False
    import xml.etree.ElementTree as ET
    root = ET.fromstring(text)
    ref = RF.flatten(root)
    ctx.branch('reader:SaxDocument')
    ctx.verdict()
    flat = call.ret
    if len(flat) != len(ref) or len(doc.tree) != len(ref):
        ctx.violation('SaxDocument/count', 'SaxDocument returned %d paths for %d supported elements' % (len(flat), len(ref)))
        return True
    chain = _chain_fn(root)
    for (el, M, pieces), p, values in zip(ref, flat, doc.tree):
        if values.get('id') != el.get('id'):
            ctx.violation('SaxDocument/order', 'SaxDocument paths are not in document order')
            return True
        if isinstance(pieces, RF.Unsupported):
            continue
        res = compare_geometry(p, pieces, ref_size(pieces), float(np.linalg.norm(M[:2, :2], 2)), M)
        if res is not None:
            nontrivial = [e.get('transform') for e in chain(el) if e.get('transform')]
            depth = len(nontrivial)
            ctx.violation('SaxDocument/%s/%s/%s' % (res[0], elem_class(el), 'transformed' if depth else 'untransformed'),
                          'SaxDocument.flatten_all_paths: path differs from the SVG reference: ' + res[1],
                          {'id': el.get('id'), 'transforms': nontrivial})
            return True
    return True


def exc_sax(name):
    def on_exc(call):
        ctx = core.CTX
        text = SRC.get('text')
        if text is None:
            return False
        import xml.etree.ElementTree as ET
        root = ET.fromstring(text)
        classes = sorted({elem_class(el) for el in root.iter() if el.tag.split('}')[-1] in RF.SHAPES})
        style = any((el.get('style') or '').strip().endswith(';') for el in root.iter())
        ctx.verdict()
        ctx.violation('SaxDocument/%s/raises/%s%s' % (name, type(call.exc).__name__, '/style-trailing-semicolon' if style else ''),
                      'SaxDocument.%s raised %s on a valid document: %s' % (name, type(call.exc).__name__, str(call.exc)[:80]),
                      {'classes': classes})
        return True
    return on_exc


SRC = {}


def install(ctx):
    import svgpathtools.document as D
    import svgpathtools.svg_to_paths as S
    import svgpathtools.parser as PR
    import svgpathtools.svg_io_sax as X
    monitor.install(D, 'flattened_paths', post=post_flattened_paths, on_exc=exc_flattened_paths)
    monitor.install(D, 'flattened_paths_from_group', post=post_from_group)
    monitor.install(PR, 'parse_transform', post=post_parse_transform, on_exc=exc_parse_transform)
    monitor.install(S, 'svg2paths', post=post_svg2paths, on_exc=exc_svg2paths)
    monitor.install(X.SaxDocument, 'flatten_all_paths', post=post_sax, on_exc=exc_sax('flatten_all_paths'))
    monitor.install(X.SaxDocument, 'sax_parse', on_exc=exc_sax('sax_parse'))
    monitor.install(S, 'rect2pathd', post=_converter_post(lambda c, a: 'rect'), budget=150)
    monitor.install(S, 'ellipse2pathd', post=_converter_post(lambda c, a: 'circle' if 'r' in a else 'ellipse'), budget=150)
    monitor.install(S, 'polygon2pathd', post=_converter_post(lambda c, a: 'polygon'), budget=150)
    monitor.install(S, 'polyline2pathd', post=_converter_post(
        lambda c, a: 'polygon' if (c.a.get('is_polygon') or False) else 'polyline'), budget=150)
    monitor.install(S, 'line2pathd', post=_converter_post(lambda c, a: 'line'), budget=150)


# --------------------------------------------------------------------------
# document generator

def _num(rng, lo, hi):
    v = rng.choice([rng.uniform(lo, hi), float(rng.randint(int(lo), int(hi))), rng.randint(int(lo), int(hi)) / 2.0])
    s = repr(v)
    if s.endswith('.0') and rng.random() < 0.5:
        s = s[:-2]
    return s


def _respell(rng, a):
    """another legal spelling of the same number (string edits only, so the value denoted is unchanged)"""
    neg = a.startswith('-')
    body = a[1:] if neg else a
    if 'e' in body or 'E' in body:
        return a
    opts = []
    if body.startswith('0.') and len(body) > 2:
        opts += [body[1:]] * 3                                  # .5
    if body.endswith('.0'):
        opts += [body[:-1], body[:-2]]                          # 5.   5
    if '.' not in body:
        opts += [body + '.', body + 'e0', body + 'E+0']
    else:
        opts += [body + 'e0', body + 'e-0']
    b = rng.choice(opts)
    return ('-' + b) if neg else rng.choice([b, b, '+' + b])


def _transform(rng, lexical=False):
    n = rng.choice([1, 1, 2, 3])
    items = []
    for _ in range(n):
        k = rng.choice(['matrix', 'translate', 'translate1', 'scale', 'scale1', 'rotate', 'rotate3', 'skewX', 'skewY', 'flip'])
        if k == 'flip':
            # mirror images with equal magnitudes on both axes (the usual "flip y" of a page, a mirrored icon)
            m = rng.choice(['1', '1', '2', '3', '0.5'])
            sx, sy = rng.choice([(m, '-' + m), ('-' + m, m)])
            if rng.random() < 0.6:
                args, name = [sx, sy], 'scale'
            else:
                args, name = [sx, '0', '0', sy, _num(rng, -50, 50), rng.choice(['297', _num(rng, -50, 50)])], 'matrix'
        elif k == 'matrix':
            args = [_num(rng, -2, 2) for _ in range(4)] + [_num(rng, -50, 50) for _ in range(2)]
            if abs(float(args[0]) * float(args[3]) - float(args[1]) * float(args[2])) < 0.05:
                args[0], args[3], args[1], args[2] = '1.5', '0.75', '0.25', '-0.5'
            name = 'matrix'
        elif k == 'translate':
            args, name = [_num(rng, -50, 50), _num(rng, -50, 50)], 'translate'
        elif k == 'translate1':
            args, name = [_num(rng, -50, 50)], 'translate'
        elif k == 'scale':
            args, name = [rng.choice(['2', '0.5', '-1', _num(rng, 1, 3)]), rng.choice(['3', '0.25', '-1.5', _num(rng, 1, 3)])], 'scale'
        elif k == 'scale1':
            args, name = [rng.choice(['2', '0.5', '-1.5', _num(rng, 1, 3)])], 'scale'
        elif k == 'rotate':
            args, name = [_num(rng, -360, 360)], 'rotate'
        elif k == 'rotate3':
            args, name = [_num(rng, -360, 360), _num(rng, -30, 30), _num(rng, -30, 30)], 'rotate'
        elif k == 'skewX':
            args, name = [_num(rng, -60, 60)], 'skewX'
        else:
            args, name = [_num(rng, -60, 60)], 'skewY'
        if lexical:
            # number spellings of the SVG grammar: no leading zero (.5, -.5), trailing dot (5.), explicit sign, exponent
            for ai in range(len(args)):
                if name in ('translate', 'skewX', 'skewY', 'rotate') or (name == 'matrix' and ai >= 4):
                    if rng.random() < 0.3:
                        args[ai] = repr(rng.randint(-15, 15) / 16.0)
                if rng.random() < 0.5:
                    args[ai] = _respell(rng, args[ai])
            sep = rng.choice([',', ' ', ', ', '\t', '\n ', ''])
            out = args[0]
            for a in args[1:]:
                s = sep
                if s == '' and not a.startswith('-'):
                    s = ' '
                out += s + a
            items.append('%s%s(%s)' % (name, rng.choice(['', ' ']), out))
        else:
            items.append('%s(%s)' % (name, rng.choice([',', ' ', ', ']).join(args)))
    return rng.choice([' ', ' ', ',', ', '] if lexical else [' ']).join(items)


def _leaf(rng, idx):
    k = rng.choice(['rect', 'rect-r', 'rect-rx', 'rect-ry', 'rect-big-r', 'rect-big-one', 'circle', 'ellipse', 'line', 'line-partial',
                    'polyline', 'polygon', 'polygon-closed', 'path', 'path-arc'])
    x, y = _num(rng, -50, 50), _num(rng, -50, 50)
    w, h = _num(rng, 5, 60), _num(rng, 5, 60)
    a = {'id': 'e%d' % idx}
    if k.startswith('rect'):
        tag = 'rect'
        a.update({'x': x, 'y': y, 'width': w, 'height': h})
        if rng.random() < 0.15:
            del a['x']
        r1 = repr(min(float(w), float(h)) * rng.uniform(0.05, 0.45))
        r2 = repr(min(float(w), float(h)) * rng.uniform(0.05, 0.45))
        if k == 'rect-r':
            a.update({'rx': r1, 'ry': r2})
        elif k == 'rect-rx':
            a['rx'] = r1
        elif k == 'rect-ry':
            a['ry'] = r1
        elif k == 'rect-big-one':
            # only one radius given, and larger than half the SHORTER side: the missing one defaults to the given
            # value first, then each is clamped to its own half side (width != height tells the two orders apart)
            big = repr(min(float(w), float(h)) * rng.uniform(0.55, 1.5))
            a[rng.choice(['rx', 'ry'])] = big
        elif k == 'rect-big-r':
            a.update({'rx': repr(float(w) * rng.uniform(0.6, 2)), 'ry': repr(float(h) * rng.uniform(0.3, 2))})
    elif k == 'circle':
        tag = 'circle'
        a.update({'cx': x, 'cy': y, 'r': _num(rng, 2, 40)})
        if rng.random() < 0.2:
            del a['cx']
    elif k == 'ellipse':
        tag = 'ellipse'
        a.update({'cx': x, 'cy': y, 'rx': _num(rng, 2, 40), 'ry': _num(rng, 2, 40)})
    elif k.startswith('line'):
        tag = 'line'
        a.update({'x1': x, 'y1': y, 'x2': _num(rng, -50, 50), 'y2': _num(rng, -50, 50)})
        if k == 'line-partial':
            for key in rng.sample(['x1', 'y1', 'x2', 'y2'], rng.randint(1, 3)):
                del a[key]
        if (a.get('x1', '0'), a.get('y1', '0')) == (a.get('x2', '0'), a.get('y2', '0')):
            a['x2'] = '77'
    elif k.startswith('poly'):
        tag = 'polygon' if k.startswith('polygon') else 'polyline'
        n = rng.randint(3, 7)
        pts = [(_num(rng, -50, 50), _num(rng, -50, 50)) for _ in range(n)]
        if len(set(pts)) < n:
            pts = [(repr(float(i * 7)), repr(float((i * i) % 11))) for i in range(n)]
        if k == 'polygon-closed' or (tag == 'polyline' and rng.random() < 0.3):
            pts.append(pts[0])
        style = rng.choice(['comma', 'space', 'mixed'])
        if style == 'comma':
            a['points'] = ' '.join('%s,%s' % p for p in pts)
        elif style == 'space':
            a['points'] = ' '.join('%s %s' % p for p in pts)
        else:
            a['points'] = ' '.join('%s%s%s' % (p[0], '' if p[1].startswith('-') else ',', p[1]) for p in pts)
    else:
        tag = 'path'
        if k == 'path-arc':
            a['d'] = 'M %s,%s a %s,%s %s %d,%d %s,%s l 5,5 z' % (x, y, _num(rng, 5, 30), _num(rng, 5, 30), _num(rng, 0, 90),
                                                              rng.randint(0, 1), rng.randint(0, 1), _num(rng, 5, 30), _num(rng, 5, 30))
        else:
            a['d'] = 'M %s,%s L %s,%s C %s,%s %s,%s %s,%s Q %s,%s %s,%s' % tuple(_num(rng, -50, 50) for _ in range(14))
    if rng.random() < 0.3:
        a['style'] = rng.choice(['fill:none;stroke:#000', 'fill:red', 'stroke-width:2;fill:none'])
    return tag, a


def gen_document(rng, lexical=False, sax_hostile=False):
    idx = [0]
    depth_seen = [0]

    def element(tag, attrib, children=''):
        at = ''.join(' %s="%s"' % (k, v.replace('&', '&amp;').replace('<', '&lt;').replace('"', '&quot;')) for k, v in attrib.items())
        return '<%s%s>%s</%s>' % (tag, at, children, tag) if children else '<%s%s/>' % (tag, at)

    def group(depth, budget):
        parts = []
        n = rng.randint(1, 3)
        for _ in range(n):
            if budget[0] <= 0:
                break
            if depth < 5 and rng.random() < 0.45:
                a = {'id': 'g%d' % idx[0]}
                idx[0] += 1
                if rng.random() < 0.75:
                    a['transform'] = _transform(rng, lexical)
                depth_seen[0] = max(depth_seen[0], depth + 1)
                parts.append(element('g', a, group(depth + 1, budget) or element('g', {'id': 'empty%d' % idx[0]})))
            else:
                tag, a = _leaf(rng, idx[0])
                idx[0] += 1
                budget[0] -= 1
                if rng.random() < 0.4:
                    a['transform'] = _transform(rng, lexical)
                if sax_hostile and rng.random() < 0.3:
                    a['style'] = 'fill:none;stroke:#000;'
                parts.append(element(tag, a))
        rng.shuffle(parts)
        return ''.join(parts)
    body = group(0, [rng.randint(1, 12)])
    root_attr = ' xmlns="%s" width="100" height="100"' % SVGNS
    if rng.random() < 0.1:
        root_attr += ' transform="%s"' % _transform(rng, False)
    return '<?xml version="1.0"?>\n<svg%s>%s</svg>' % (root_attr, body), depth_seen[0]


def cases(ctx):
    rng = ctx.rng
    n = TIERS[ctx.tier]['random'] // ctx.nshards
    for i in range(n):
        lexical = rng.random() < 0.15
        hostile = rng.random() < 0.1
        text, depth = gen_document(rng, lexical, hostile)
        yield {'kind': 'doc', 'svg': text, 'depth': depth,
               'cls': ['doc'] + (['lexical-transform-variants'] if lexical else []) + (['style-trailing-semicolon'] if hostile else [])}


def run_case(ctx, case):
    import xml.etree.ElementTree as ET
    from svgpathtools import Document, SaxDocument
    from svgpathtools.svg_to_paths import svg2paths
    text = case['svg']
    if case['depth'] >= 3:
        ctx.branch('nesting>=3')
    SRC.clear()
    SRC['text'] = text
    try:
        doc = Document.from_svg_string(text)
        try:
            doc.paths()
        except Exception:
            pass                 # judged by the exception observer
        groups = [g for g in doc.root.iter('{%s}g' % SVGNS)]
        if groups:
            g = groups[len(text) % len(groups)]
            try:
                doc.paths_from_group(g)
            except Exception:
                pass
        try:
            svg2paths(io.StringIO(text))
        except Exception:
            pass
        work = os.environ.get('VT_WORK', '/tmp')
        fn = os.path.join(work, 'c17-%d-%d.svg' % (os.getpid(), ctx.cases))
        with open(fn, 'w') as f:
            f.write(text)
        try:
            sd = SaxDocument(fn)
            sd.flatten_all_paths()
        except Exception:
            pass
        finally:
            os.remove(fn)
    finally:
        SRC.clear()


def crash_key(ctx, case, e, site):
    return 'crash/%s@%s' % (type(e).__name__, site)


REGISTER = True
TECHNIQUE = 'runtime monitors on flattened_paths / flattened_paths_from_group / svg2paths / SaxDocument / parse_transform / shape converters, compared with an independent reference SVG flattener on generated documents'
LEVEL_TEXT = ('Every flattening call of the workload is compared element by element with an independent flattener (own transform-list parser, spec shape '
              'geometry, ancestors composed outermost first): straight-edged elements by their mapped defining points, curved ones by two-sided polyline '
              'distance <= 1e-6 of the size; parse_transform and every shape converter are judged at their own boundary so a failure is localised; '
              'Document.paths, paths_from_group, svg2paths (untransformed by design) and SaxDocument are all read from the same generated documents.')
LEVEL_NOTE = 'Trusts vt/ref/flatten.py; documents use only the element kinds, units-free attributes and svg:g nesting the library claims to support.'
