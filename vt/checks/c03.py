"""C03 - Line/Quadratic/Cubic point, poly, points and derivative are the Bernstein curve.

Monitors: post-conditions on point / points / poly / derivative / bpoints of the
          three Bezier classes and on poly2bez, bez2poly, bpoints2bezier.
Oracles : (a) exact-rational Bernstein arithmetic on the actual double inputs
          (vt/ref/exact.py) with a forward-error tolerance;
          (b) symbolic-value execution: the real functions run once on sympy
          symbols and the result must expand to the Bernstein polynomial /
          its derivative; the set of lines executed by the symbolic run is
          compared with the lines executed by sampled float runs.
"""
import math
from fractions import Fraction as F

import numpy as np

from .. import core, gen, monitor, symb
from ..ref import exact as X

PROP = 'C03'
CONFIGS = ['scipy']
DECIDING = ['Line.point', 'QuadraticBezier.point', 'CubicBezier.point', 'CubicBezier.derivative',
            'CubicBezier.poly', 'QuadraticBezier.derivative', 'path.poly2bez']
ANCHORED = ['Line.point', 'Line.poly', 'Line.derivative', 'Line.points', 'QuadraticBezier.point',
            'QuadraticBezier.poly', 'QuadraticBezier.derivative', 'QuadraticBezier.points',
            'CubicBezier.point', 'CubicBezier.poly', 'CubicBezier.derivative', 'CubicBezier.points',
            'bezier2polynomial', 'polynomial2bezier', 'poly2bez', 'bez2poly', 'bpoints2bezier']
RULE = ('cases = one Bezier segment (class-structured random control points: magnitudes 1e-3..1e6, coincident / '
        'collinear / repeated control points, python and numpy scalars) with a set of parameters t (0, 1, dyadics, '
        'random in [-0.25,1.25], arrays); every monitored call is compared with exact-rational Bernstein arithmetic; '
        'plus one symbolic-value execution per shard proving the polynomial identities for all values; distinct by '
        'segment spec + parameter list; non-trivial if at least one oracle verdict was reached')
RULE += '; parameters within 1e-13..1e-4 of both ends of [0,1] (inside and outside); the same queries on reversed() copies made after length() and after control-point assignment'
ASSUMPTIONS = ['fractions.Fraction arithmetic and sympy.expand are correct',
               'symbolic identity stands for all values only where float runs execute the same lines as the symbolic run '
               '(monitored; deviations are reported in the evidence as float_lines_outside_symbolic)']
TIERS = {
    'quick': {'shards': 14, 'random': 4200, 'timeout': 600, 'min_cases': 3000,
              'require_branches': ['symbolic:identities-proved', 'requery-after-control-point-assignment', 'reversed-after-length']},
    'thorough': {'shards': 14, 'random': 200000, 'timeout': 3000, 'min_cases': 100000,
                 'require_branches': ['symbolic:identities-proved']},
}
EPS = gen.EPS
SYM_LINES = {}


def _bps(seg):
    n = type(seg).__name__
    if n == 'Line':
        return [seg.start, seg.end]
    if n == 'QuadraticBezier':
        return [seg.start, seg.control, seg.end]
    return [seg.start, seg.control1, seg.control2, seg.end]


def _numeric(x):
    return isinstance(x, (int, float, np.floating, np.integer)) and not isinstance(x, bool)


def _S(bps):
    return sum(abs(complex(p)) for p in bps)


def tol_point(bps, t):
    n = len(bps) - 1
    return 8 * (2 * n + 2) * EPS * 3 ** n * _S(bps) * max(1.0, abs(float(t))) ** n


def check_point_value(ctx, what, bps, t, val, key):
    ex = X.cfl(X.bez(bps, t))
    tol = tol_point(bps, t)
    ctx.verdict()
    if not (abs(complex(val) - ex) <= tol):
        ctx.violation(key, '%s differs from the Bernstein curve' % what,
                      {'t': float(t), 'got': repr(val), 'exact': repr(ex), 'tol': tol})


def post_point(call):
    ctx = core.CTX
    seg = call.args[0]
    t = call.a.get('t')
    bps = _bps(seg)
    cname = type(seg).__name__
    if isinstance(t, np.ndarray):
        ret = np.asarray(call.ret)
        for ti, vi in zip(t.ravel()[:8], ret.ravel()[:8]):
            check_point_value(ctx, '%s.point(array)' % cname, bps, ti, vi, 'point-array/%s' % cname)
        return True
    if not _numeric(t):
        return False
    check_point_value(ctx, '%s.point(t)' % cname, bps, t, call.ret, 'point/%s' % cname)
    if t == 0:
        ctx.verdict()
        if not (call.ret == seg.start):
            ctx.violation('point0/%s' % cname, 'point(0) is not exactly start',
                          {'got': repr(call.ret), 'start': repr(seg.start)})
    return True


def post_points(call):
    ctx = core.CTX
    seg = call.args[0]
    ts = call.a.get('ts')
    try:
        tl = [float(x) for x in np.asarray(ts, dtype=float).ravel()]
    except (TypeError, ValueError):
        return False
    ret = np.asarray(call.ret).ravel()
    cname = type(seg).__name__
    ctx.verdict()
    if len(ret) != len(tl):
        ctx.violation('points-len/%s' % cname, 'points(ts) returned %d values for %d parameters' % (len(ret), len(tl)))
        return True
    bps = _bps(seg)
    for ti, vi in zip(tl[:8], ret[:8]):
        check_point_value(ctx, '%s.points(ts)' % cname, bps, ti, vi, 'points/%s' % cname)
    return True


def exact_coeffs(bps):
    return [X.cfl(c) for c in X.power_coeffs(bps)]


def post_poly(call):
    ctx = core.CTX
    seg = call.args[0]
    bps = _bps(seg)
    if not all(isinstance(complex(p), complex) for p in bps):
        return False
    n = len(bps) - 1
    cname = type(seg).__name__
    ret = call.ret
    coeffs = list(ret.coeffs) if isinstance(ret, np.poly1d) else list(ret)
    ex = exact_coeffs(bps)
    tol = 8 * (n + 2) * EPS * 3 ** n * _S(bps)
    ctx.verdict()
    if isinstance(ret, np.poly1d):
        # numpy trims leading zeros; compare from the constant term upwards
        coeffs = [0j] * (len(ex) - len(coeffs)) + coeffs
    if len(coeffs) != len(ex):
        ctx.violation('poly-degree/%s' % cname, 'poly() has %d coefficients' % len(coeffs))
        return True
    for j, (a, b) in enumerate(zip(coeffs, ex)):
        if not (abs(complex(a) - b) <= tol):
            ctx.violation('poly-coeff/%s' % cname, 'coefficient of t^%d differs from the Bernstein expansion' % (n - j),
                          {'got': repr(a), 'exact': repr(b), 'tol': tol})
            break
    return True


def post_derivative(call):
    ctx = core.CTX
    seg = call.args[0]
    t = call.a.get('t')
    k = call.a.get('n', 1)
    cname = type(seg).__name__
    if t is None and cname == 'Line':
        t = 0.5
    if not _numeric(t) or not isinstance(k, (int, np.integer)):
        return False
    bps = _bps(seg)
    n = len(bps) - 1
    ex = X.cfl(X.bez_deriv(bps, t, int(k)))
    tol = 8 * (2 * n + 2) * EPS * 3 ** n * math.factorial(n) * _S(bps) * max(1.0, abs(float(t))) ** n
    ctx.verdict()
    if not (abs(complex(call.ret) - ex) <= tol):
        ctx.violation('derivative/%s/n=%s' % (cname, k if k <= n + 1 else '>deg+1'),
                      'derivative(t, %d) differs from the exact derivative of the Bernstein curve' % k,
                      {'t': float(t), 'got': repr(call.ret), 'exact': repr(ex), 'tol': tol})
    return True


def exact_poly2bez(c):
    """c: power coefficients highest first (complex floats) -> exact Bezier points (floats)"""
    n = len(c) - 1
    asc = [X.cfr(z) for z in c[::-1]]
    out = []
    for i in range(n + 1):
        re = sum(F(math.comb(i, j), math.comb(n, j)) * asc[j][0] for j in range(i + 1))
        im = sum(F(math.comb(i, j), math.comb(n, j)) * asc[j][1] for j in range(i + 1))
        out.append(complex(float(re), float(im)))
    return out


def post_poly2bez(call):
    ctx = core.CTX
    poly = call.a.get('poly')
    c = list(poly.coeffs) if isinstance(poly, np.poly1d) else list(poly)
    try:
        c = [complex(z) for z in c]
    except TypeError:
        return False
    if not 1 <= len(c) - 1 <= 3:
        return False
    ret = call.ret
    pts = list(ret) if call.a.get('return_bpoints') else _bps(ret)
    ex = exact_poly2bez(c)
    n = len(c) - 1
    tol = 8 * (n + 2) * EPS * sum(abs(z) for z in c)
    ctx.verdict()
    if len(pts) != len(ex):
        ctx.violation('poly2bez-degree', 'poly2bez returned %d control points for degree %d' % (len(pts), n))
        return True
    for i, (a, b) in enumerate(zip(pts, ex)):
        if not (abs(complex(a) - b) <= tol):
            ctx.violation('poly2bez/deg%d' % n, 'control point %d differs from the exact basis change' % i,
                          {'got': repr(a), 'exact': repr(b), 'tol': tol})
            break
    return True


def post_bez2poly(call):
    ctx = core.CTX
    bez = call.a.get('bez')
    try:
        bps = _bps(bez) if hasattr(bez, 'start') else [complex(z) for z in bez]
        bps = [complex(z) for z in bps]
    except TypeError:
        return False
    ret = call.ret
    coeffs = list(ret.coeffs) if isinstance(ret, np.poly1d) else list(ret)
    if not call.a.get('numpy_ordering', True):
        coeffs = coeffs[::-1]
    ex = exact_coeffs(bps)
    if isinstance(ret, np.poly1d):
        coeffs = [0j] * (len(ex) - len(coeffs)) + coeffs
    n = len(bps) - 1
    tol = 8 * (n + 2) * EPS * 3 ** n * _S(bps)
    ctx.verdict()
    if len(coeffs) != len(ex) or any(not (abs(complex(a) - b) <= tol) for a, b in zip(coeffs, ex)):
        ctx.violation('bez2poly/deg%d' % n, 'bez2poly differs from the exact power-basis coefficients',
                      {'got': repr(coeffs), 'exact': repr(ex)})
    return True


def post_bpoints2bezier(call):
    ctx = core.CTX
    bp = list(call.a.get('bpoints'))
    ret = call.ret
    ctx.verdict()
    want = {2: 'Line', 3: 'QuadraticBezier', 4: 'CubicBezier'}.get(len(bp))
    if type(ret).__name__ != want or any(not (a == b) for a, b in zip(_bps(ret), bp)):
        ctx.violation('bpoints2bezier/%d' % len(bp), 'bpoints2bezier does not return the segment with these control points')
    return True


def install(ctx):
    import svgpathtools.path as P
    for cls in (P.Line, P.QuadraticBezier, P.CubicBezier):
        monitor.install(cls, 'point', post=post_point)
        monitor.install(cls, 'points', post=post_points)
        monitor.install(cls, 'poly', post=post_poly)
        monitor.install(cls, 'derivative', post=post_derivative)
    monitor.install(P, 'poly2bez', post=post_poly2bez)
    monitor.install(P, 'bez2poly', post=post_bez2poly)
    monitor.install(P, 'bpoints2bezier', post=post_bpoints2bezier)


# --------------------------------------------------------------------------
# symbolic-value execution

def _traced_funcs():
    import svgpathtools.path as P
    import svgpathtools.bezier as B
    fs = []
    for cls in (P.Line, P.QuadraticBezier, P.CubicBezier):
        for m in ('point', 'points', 'poly', 'derivative', 'bpoints'):
            fs.append(symb.unwrap(cls.__dict__[m]))
    fs += [symb.unwrap(B.bezier2polynomial), symb.unwrap(B.polynomial2bezier),
           symb.unwrap(P.poly2bez), symb.unwrap(P.bez2poly), symb.unwrap(P.bpoints2bezier)]
    return fs


def _exercise(seg_cls, pts, t, ts):
    """the sequence of real calls whose line sets are compared (symbolic and float alike)"""
    import svgpathtools.path as P
    seg = seg_cls(*pts)
    n = len(pts) - 1
    out = {}
    out['point'] = seg.point(t)
    out['coeffs'] = seg.poly(return_coeffs=True)
    out['polyval'] = seg.poly()(t)
    out['points'] = seg.points(ts)
    out['deriv'] = [seg.derivative(t, k) for k in range(1, n + 3)]
    out['b2p'] = P.bez2poly(seg, numpy_ordering=False)
    out['b2p_t'] = P.bez2poly(tuple(pts))
    out['p2b'] = P.poly2bez(list(out['coeffs']), return_bpoints=True)
    out['roundtrip'] = P.poly2bez(seg.poly())
    out['bp2b'] = P.bpoints2bezier(list(pts))
    return out


def symbolic_case(ctx):
    import sympy as sp
    import svgpathtools.path as P
    t = sp.Symbol('t')
    u = sp.Symbol('u')
    fails = []
    with monitor.suspended():
        with symb.LineTrace(_traced_funcs()) as tr:
            for cls, n in ((P.Line, 1), (P.QuadraticBezier, 2), (P.CubicBezier, 3)):
                Ps = symb.symbols('P', n + 1)
                Bt = symb.bernstein_expr(Ps, t)
                o = _exercise(cls, Ps, t, [t, u])
                name = cls.__name__
                if not symb.is_zero(o['point'] - Bt):
                    fails.append(name + '.point')
                if not symb.is_zero(sum(c * t ** (n - j) for j, c in enumerate(o['coeffs'])) - Bt):
                    fails.append(name + '.poly(return_coeffs)')
                if not symb.is_zero(o['polyval'] - Bt):
                    fails.append(name + '.poly()(t)')
                if not (symb.is_zero(o['points'][0] - Bt) and symb.is_zero(o['points'][1] - Bt.subs(t, u))):
                    fails.append(name + '.points')
                for k, d in enumerate(o['deriv'], 1):
                    if not symb.is_zero(d - sp.diff(Bt, t, k)):
                        fails.append(name + '.derivative(n=%d)' % k)
                if not symb.is_zero(sum(c * t ** j for j, c in enumerate(o['b2p'])) - Bt):
                    fails.append('bez2poly(' + name + ')')
                if not symb.is_zero(sum(c * t ** (n - j) for j, c in enumerate(o['b2p_t'])) - Bt):
                    fails.append('bez2poly(tuple)')
                if not all(symb.is_zero(a - b) for a, b in zip(o['p2b'], Ps)) or len(o['p2b']) != n + 1:
                    fails.append('poly2bez(coeffs of ' + name + ')')
                rt = o['roundtrip']
                if type(rt) is not cls or not all(symb.is_zero(a - b) for a, b in zip(_bps(rt), Ps)):
                    fails.append('poly2bez(' + name + '.poly())')
                if type(o['bp2b']) is not cls:
                    fails.append('bpoints2bezier')
                ctx.verdict(10 + n)
        SYM_LINES['all'] = set(tr.lines)
    for f in fails:
        ctx.violation('symbolic/' + f, 'symbolic-value execution of %s does not expand to the Bernstein identity' % f)
    if not fails:
        ctx.branch('symbolic:identities-proved')
    ctx.note('symbolic_lines_recorded', len(SYM_LINES['all']))


# --------------------------------------------------------------------------
def _ctrl_points(rng, n, cls):
    scale = 10.0 ** rng.uniform(-3, 6)
    def p():
        return complex(rng.uniform(-scale, scale), rng.uniform(-scale, scale))
    if cls == 'generic':
        pts = [p() for _ in range(n + 1)]
    elif cls == 'coincident':
        pts = [p() for _ in range(n + 1)]
        i = rng.randrange(n)
        pts[i + 1] = pts[i]
        if n == 3 and rng.random() < 0.3:
            pts[2] = pts[3]
    elif cls == 'collinear':
        a, d = p(), p()
        pts = [a + d * rng.uniform(-2, 2) for _ in range(n + 1)]
    elif cls == 'closed':
        pts = [p() for _ in range(n + 1)]
        pts[-1] = pts[0]
    elif cls == 'int':
        pts = [complex(rng.randint(-9, 9), rng.randint(-9, 9)) for _ in range(n + 1)]
    elif cls == 'origin':
        # zero coefficients in the power basis: start at the origin, sometimes a vanishing linear/top term as well
        pts = [p() for _ in range(n + 1)]
        pts[0] = 0j
        if n >= 2 and rng.random() < 0.4:
            pts[1] = 0j
    else:
        raise ValueError(cls)
    if n == 1 and pts[0] == pts[1]:
        pts[1] = pts[0] + (1 + 1j)
    return pts


def cases(ctx):
    rng = ctx.rng
    plan = TIERS[ctx.tier]
    yield {'kind': 'symbolic', 'shard': ctx.shard, 'cls': ['symbolic']}
    n = plan['random'] // ctx.nshards
    for i in range(n):
        deg = rng.choice([1, 2, 2, 3, 3, 3])
        cls = rng.choice(['generic', 'generic', 'coincident', 'collinear', 'closed', 'int', 'origin'])
        if deg == 1 and cls in ('coincident', 'closed'):
            cls = 'generic'
        pts = _ctrl_points(rng, deg, cls)
        ts = [0, 1, 0.0, 1.0, rng.randint(0, 16) / 16.0, rng.uniform(0, 1), rng.uniform(-0.25, 1.25),
              rng.uniform(0, 1),
              # close to, but not at, the ends of the parameter interval (from both sides)
              1 - 10.0 ** rng.uniform(-13, -4), 10.0 ** rng.uniform(-13, -4), 1 + 10.0 ** rng.uniform(-13, -4)]
        scalar = rng.choice(['py', 'py', 'np'])
        yield {'kind': 'num', 'deg': deg, 'pts': [[z.real, z.imag] for z in pts], 'ts': ts, 'scalar': scalar,
               'cls': ['deg%d' % deg, 'ctrl:' + cls, 'scalar:' + scalar]}


_sample_counter = [0]


def run_case(ctx, case):
    import svgpathtools.path as P
    if case['kind'] == 'symbolic':
        symbolic_case(ctx)
        return
    deg = case['deg']
    cls = {1: P.Line, 2: P.QuadraticBezier, 3: P.CubicBezier}[deg]
    pts = [complex(*z) for z in case['pts']]
    if case['scalar'] == 'np':
        pts = [np.complex128(z) for z in pts]
    seg = cls(*pts)
    ts = case['ts']
    if case['scalar'] == 'np':
        ts = [np.float64(t) if isinstance(t, float) else t for t in ts]
    for t in ts:
        seg.point(t)
        for k in range(1, deg + 3):
            seg.derivative(t, k)
    seg.points(ts)
    arr = np.array([float(t) for t in ts])
    seg.points(arr)
    seg.point(arr)
    pl = seg.poly()
    seg.poly(return_coeffs=True)
    for t in ts[4:]:
        check_point_value(ctx, '%s.poly()(t)' % cls.__name__, _bps(seg), t, pl(t), 'polyval/%s' % cls.__name__)
    if pl.order >= 1:
        P.poly2bez(pl)
    P.poly2bez(list(seg.poly(return_coeffs=True)), return_bpoints=True)
    if complex(*case['pts'][0]) != 0:
        P.poly2bez(np.poly1d([complex(*case['pts'][0]), complex(*case['pts'][-1])]))
    P.bez2poly(seg)
    P.bez2poly(tuple(pts), numpy_ordering=False)
    P.bez2poly(seg, return_poly1d=True)
    P.bpoints2bezier(list(pts))
    # the same object after its control points were reassigned (a cached representation must not survive)
    shift = complex(case['ts'][5], case['ts'][6]) * (1 + abs(pts[0]))
    if deg >= 2:
        if deg == 2:
            seg.control = seg.control + shift
        else:
            seg.control1 = seg.control1 + shift
            seg.control2 = seg.control2 - 2 * shift
        ctx.branch('requery-after-control-point-assignment')
        for t in ts[4:7]:
            seg.point(t)
            seg.derivative(t, 1)
        seg.points(ts)
        seg.poly()
        seg.poly(return_coeffs=True)
        P.bez2poly(seg)
        if seg.poly().order >= 1:
            P.poly2bez(seg.poly())
    # a copy made after the original has answered other queries (length caches per-object state)
    ctx.branch('reversed-after-length')
    seg.length()
    rev = seg.reversed()
    rev.points(ts)
    rev.poly()
    for t in ts[4:]:
        rev.point(t)
        rev.derivative(t, 1)
    P.bez2poly(rev)
    seg.end = seg.end + shift
    seg.start = seg.start - shift
    seg.poly()
    seg.points(ts)
    seg.point(ts[5])
    # premise of the symbolic identity: float runs execute only lines the symbolic run executed
    _sample_counter[0] += 1
    if _sample_counter[0] % 50 == 1 and SYM_LINES.get('all'):
        with monitor.suspended():
            with symb.LineTrace(_traced_funcs()) as tr:
                _exercise(cls, pts, ts[5], [ts[5], ts[6]])
        extra = tr.lines - SYM_LINES['all']
        ctx.note('float_runs_line_compared')
        if extra:
            ctx.note('float_lines_outside_symbolic', len(extra))
            ctx.note('float_lines_outside_symbolic:' + ','.join(sorted('%s:%d' % e for e in extra))[:200])


REGISTER = True
TECHNIQUE = 'runtime monitors on point/points/poly/derivative/poly2bez/bez2poly with an exact-rational Bernstein oracle; symbolic-value execution of the real functions on sympy symbols with line-set comparison against float runs'
LEVEL_TEXT = ('Each monitored call is compared with exact rational Bernstein arithmetic on the actual double inputs (tolerance = forward '
              'error bound x 8). The polynomial identities are observed by executing the real functions once per degree on ring elements '
              '(sympy symbols); since the functions have no value-dependent branch (checked by comparing executed line sets of sampled '
              'float runs with the symbolic run) this execution stands for all values. Numeric part: ~4k segments x 8 parameters (quick), 200k (thorough).')
LEVEL_NOTE = 'Trusts Fraction arithmetic, sympy.expand and the harness tolerances; numeric classes not generated are not covered.'
