"""C06 - length() is the true arc length: bracketed, additive, finite, scipy-independent.

Monitors: length of Line/QuadraticBezier/CubicBezier/Arc, segment_length (outermost call
          of the recursion), Path.length.
Oracle  : vt/ref/quad.py - rigorous bracket [sum of chords, sum of control-polygon lengths]
          of a 4096-piece subdivision + independent Gauss-Legendre quadrature; whether the
          speed vanishes inside [t0,t1] is decided exactly (rational gcd of x'(t), y'(t)).
Configurations: scipy available / blocked before import (pure-Python recursive fallback).
"""
import cmath
import math
import random
from fractions import Fraction as F

import numpy as np

from .. import core, gen, monitor
from ..ref import exact as X
from ..ref import quad as Q

PROP = 'C06'
CONFIGS = ['scipy', 'noscipy']
DECIDING = ['Line.length', 'QuadraticBezier.length', 'CubicBezier.length', 'Arc.length', 'Path.length']
ANCHORED = ['QuadraticBezier.length', 'CubicBezier.length', 'Arc.length', 'segment_length', 'Line.length',
            'Path.length', 'Path._calc_lengths']
RULE = ('cases = one segment (generic / collinear with and without fold-back, dyadic and non-dyadic / repeated control points / '
        'cusp cubic / eccentric and rotated arcs) with sub-intervals {[0,1],[0,t],[t,1],[t,t],[a,b], straddling the cusp}, or a '
        'path; every length(t0,t1) call is judged against the bracket and the quadrature; run with scipy and with scipy blocked; '
        'distinct by (config, spec, intervals); non-trivial if an oracle verdict was reached')
RULE += '; nearly straight quadratics, hairpin cubics, loop segments inside paths, edits through the Path interface between length queries'
ASSUMPTIONS = ['vt/ref/quad.py: the bracket is rigorous up to float summation slack (64*eps*N*scale is added)',
               'the absolute tolerance requested by the call (error=1e-12 by default) is honoured as an absolute slack',
               'fallback configuration: inputs limited to |coord| <= 100 (the recursion to error=1e-12 explodes beyond; a watchdog reports that as inconclusive)']
TIERS = {
    'quick': {'shards': 8, 'shards_alt': 6, 'random': 6600, 'random_alt': 240, 'timeout': 900, 'min_cases': 3000,
              'max_timeouts': 3,
              'require_branches': ['speed-vanishes-inside', 'collinear:dyadic', 'collinear:nondyadic', 'cubic:cusp',
                                   'config:noscipy', 'config:scipy', 'arc:eccentric', 'quad:nearly-straight', 'path:edited', 'cubic:hairpin', 'path:loop-segment']},
    'thorough': {'shards': 10, 'shards_alt': 4, 'random': 300000, 'random_alt': 12000, 'timeout': 3400,
                 'min_cases': 100000, 'max_timeouts': 20,
                 'require_branches': ['speed-vanishes-inside', 'collinear:dyadic', 'collinear:nondyadic', 'cubic:cusp',
                                      'config:noscipy', 'config:scipy', 'arc:eccentric', 'quad:nearly-straight', 'path:edited', 'cubic:hairpin', 'path:loop-segment']},
}
CASE_TIMEOUT = 40
EPS = gen.EPS


def _bps(seg):
    n = type(seg).__name__
    if n == 'Line':
        return [seg.start, seg.end]
    if n == 'QuadraticBezier':
        return [seg.start, seg.control, seg.end]
    return [seg.start, seg.control1, seg.control2, seg.end]


def speed_zero_inside(bps, t0, t1):
    """exact: does B'(t) vanish for some t in [t0, t1]?"""
    n = len(bps) - 1
    if n < 1:
        return True
    re = X.diff_ctrl([F(complex(p).real) for p in bps])
    im = X.diff_ctrl([F(complex(p).imag) for p in bps])
    gx = X.ptrim(X.power_coeffs_real(re))
    gy = X.ptrim(X.power_coeffs_real(im))
    if gx == [0] and gy == [0]:
        return True
    if gx == [0]:
        g = gy
    elif gy == [0]:
        g = gx
    else:
        g = X.pgcd(gx, gy)
    if len(g) <= 1:
        return False
    ivs, _ = X.int_real_roots(g, width_bits=40)
    return any(F(t0) - F(1, 10 ** 9) <= (lo + hi) / 2 <= F(t1) + F(1, 10 ** 9) for lo, hi, m in ivs)


def min_speed_exact(bps, t0, t1):
    """(min, max) of |B'(t)| on [t0,t1] from the exact critical points of |B'|^2"""
    re = X.diff_ctrl([F(complex(p).real) for p in bps])
    im = X.diff_ctrl([F(complex(p).imag) for p in bps])
    gx = X.power_coeffs_real(re)
    gy = X.power_coeffs_real(im)
    sq = X.padd(X.pmul(gx, gx), X.pmul(gy, gy))
    cands = [F(t0), F(t1)]
    d = X.ptrim(X.pderiv(sq))
    if len(d) > 1:
        ivs, _ = X.int_real_roots(d, width_bits=44)
        cands += [(lo + hi) / 2 for lo, hi, m in ivs if F(t0) < (lo + hi) / 2 < F(t1)]
    vals = [max(X.peval(sq, c), 0) for c in cands]
    return math.sqrt(float(min(vals))), math.sqrt(float(max(vals)))


def judge(ctx, name, s, lower, upper, quad, qerr, rel, abs_slack, detail):
    ctx.verdict()
    try:
        s = float(s)
    except (TypeError, ValueError):
        ctx.violation(name + '/not-a-number', 'length() did not return a real number', dict(detail, got=repr(s)))
        return
    if not math.isfinite(s):
        ctx.violation(name + '/not-finite', 'length() returned %r' % s, detail)
        return
    ref = max(upper, 0.0)
    tol = rel * ref + abs_slack
    if s < -abs_slack:
        ctx.violation(name + '/negative', 'length() is negative', dict(detail, got=s))
        return
    if not (lower - tol <= s <= upper + tol):
        ctx.violation(name + '/outside-bracket', 'length() lies outside [sum of chords, sum of control polygons]',
                      dict(detail, got=s, lower=lower, upper=upper, tol=tol, quad=quad))
        return
    if qerr <= 1e-9 * max(quad, 1e-300) and lower - tol <= quad <= upper + tol:
        if not (abs(s - quad) <= tol + 8 * qerr):
            ctx.violation(name + '/disagrees-with-quadrature', 'length() disagrees with independent quadrature',
                          dict(detail, got=s, quad=quad, tol=tol))
    else:
        ctx.note('quadrature_not_used_(unreliable_there)')


def _abs_slack(call, config):
    err = call.a.get('error')
    try:
        err = float(err) if err is not None else 1e-12
    except (TypeError, ValueError):
        err = 1e-12
    return 4 * err + (1e-9 if config == 'noscipy' else 0.0)


def _num(t):
    return isinstance(t, (int, float, np.floating, np.integer)) and not isinstance(t, bool)


def post_bez_length(call):
    ctx = core.CTX
    seg = call.args[0]
    t0, t1 = call.a.get('t0', 0), call.a.get('t1', 1)
    if not (_num(t0) and _num(t1)) or not (0 <= t0 <= t1 <= 1):
        return False
    bps = [complex(p) for p in _bps(seg)]
    mag = max(abs(p) for p in bps)
    if not math.isfinite(mag) or mag > 1e150:
        return False
    name = type(seg).__name__
    t0, t1 = float(t0), float(t1)
    lower, upper = Q.bezier_bracket(bps, t0, t1)
    quad, qerr = Q.bezier_quad(bps, t0, t1)
    vanish = False
    if name != 'Line' and t1 > t0:
        smin, smax = min_speed_exact(bps, t0, t1)
        vanish = speed_zero_inside(bps, t0, t1) or smin <= 1e-6 * smax
    if vanish:
        ctx.branch('speed-vanishes-inside')
    rel = 5e-3 if vanish else 1e-6
    judge(ctx, name + ('/cusp' if vanish else ''), call.ret, lower, upper, quad, qerr, rel,
          _abs_slack(call, ctx.config) + 64 * EPS * mag,
          {'seg': gen.seg_spec(seg), 't0': t0, 't1': t1, 'config': ctx.config})
    return True


def post_arc_length(call):
    ctx = core.CTX
    a = call.args[0]
    t0, t1 = call.a.get('t0', 0), call.a.get('t1', 1)
    if not (_num(t0) and _num(t1)) or not (0 <= t0 <= t1 <= 1):
        return False
    t0, t1 = float(t0), float(t1)
    rx, ry = a.radius.real, a.radius.imag
    lower, upper = Q.arc_bracket(a.center.real, a.center.imag, rx, ry, math.radians(a.rotation),
                                 float(a.theta), float(a.delta), t0, t1)
    quad, qerr = Q.arc_quad(rx, ry, float(a.theta), float(a.delta), t0, t1)
    judge(ctx, 'Arc', call.ret, lower, upper, quad, qerr, 1e-6,
          _abs_slack(call, ctx.config) + 64 * EPS * (abs(a.center) + max(rx, ry)),
          {'seg': gen.seg_spec(a), 't0': t0, 't1': t1, 'config': ctx.config})
    return True


def post_segment_length(call):
    ctx = core.CTX
    if call.a.get('depth', 0) != 0:
        return False
    curve, t0, t1 = call.a.get('curve'), call.a.get('start'), call.a.get('end')
    if not (_num(t0) and _num(t1)) or not (0 <= t0 <= t1 <= 1):
        return False
    n = type(curve).__name__
    if n == 'Arc':
        a = curve
        lower, upper = Q.arc_bracket(a.center.real, a.center.imag, a.radius.real, a.radius.imag,
                                     math.radians(a.rotation), float(a.theta), float(a.delta), float(t0), float(t1))
        quad, qerr = Q.arc_quad(a.radius.real, a.radius.imag, float(a.theta), float(a.delta), float(t0), float(t1))
        vanish = False
        mag = abs(a.center) + max(a.radius.real, a.radius.imag)
    elif n in ('Line', 'QuadraticBezier', 'CubicBezier'):
        bps = [complex(p) for p in _bps(curve)]
        lower, upper = Q.bezier_bracket(bps, float(t0), float(t1))
        quad, qerr = Q.bezier_quad(bps, float(t0), float(t1))
        vanish = False
        if n != 'Line' and t1 > t0:
            smin, smax = min_speed_exact(bps, float(t0), float(t1))
            vanish = speed_zero_inside(bps, t0, t1) or smin <= 1e-6 * smax
        mag = max(abs(p) for p in bps)
    else:
        return False
    judge(ctx, 'segment_length:' + n + ('/cusp' if vanish else ''), call.ret, lower, upper, quad, qerr,
          5e-3 if vanish else 1e-6, _abs_slack(call, 'noscipy') + 64 * EPS * mag,
          {'seg': gen.seg_spec(curve), 't0': float(t0), 't1': float(t1), 'config': ctx.config})
    return True


def post_path_length(call):
    ctx = core.CTX
    p = call.args[0]
    T0, T1 = call.a.get('T0', 0), call.a.get('T1', 1)
    if len(p) == 0 or not (_num(T0) and _num(T1)):
        return False
    err, md = call.a.get('error'), call.a.get('min_depth')
    if T0 == 0 and T1 == 1:
        parts = [float(s.length(error=err, min_depth=md)) for s in p]
        want = math.fsum(parts)
        ctx.verdict()
        got = float(call.ret)
        if not all(math.isfinite(x) for x in parts):
            ctx.skip('a segment length is not finite (judged at the segment)')
            return True
        if not (abs(got - want) <= 8 * EPS * len(p) * max(want, 1e-300) + 1e-300):
            ctx.violation('Path.length/sum', 'Path.length() is not the sum of its segments\' lengths',
                          {'got': got, 'want': want, 'n': len(p)})
        return True
    if not (0 <= T0 <= T1 <= 1):
        return False
    L = float(p.length())
    if not math.isfinite(L) or L <= 0:
        return False
    # reference: walk the segments with the oracle's own cumulative fractions
    lens = [float(s.length()) for s in p]
    cum = [0.0]
    for x in lens:
        cum.append(cum[-1] + x / L)
    want = 0.0
    for k, s in enumerate(p):
        lo, hi = cum[k], cum[k + 1]
        if hi <= lo:
            continue
        a, b = max(T0, lo), min(T1, hi)
        if b <= a:
            continue
        ta, tb = (a - lo) / (hi - lo), (b - lo) / (hi - lo)
        want += float(s.length(t0=min(1.0, max(0.0, ta)), t1=min(1.0, max(0.0, tb))))
    ctx.verdict()
    got = float(call.ret)
    if not math.isfinite(got) or not (abs(got - want) <= 1e-6 * L + 1e-11):
        ctx.violation('Path.length/partial', 'Path.length(T0,T1) is not the arc length between the two parameters',
                      {'T0': float(T0), 'T1': float(T1), 'got': got, 'want': want, 'L': L})
    return True


def install(ctx):
    import svgpathtools.path as P
    for cls in (P.Line, P.QuadraticBezier, P.CubicBezier):
        monitor.install(cls, 'length', post=post_bez_length)
    monitor.install(P.Arc, 'length', post=post_arc_length)
    monitor.install(P, 'segment_length', post=post_segment_length)
    monitor.install(P.Path, 'length', post=post_path_length)


# --------------------------------------------------------------------------
def _gen_seg(rng, scale_exp):
    scale = 10.0 ** rng.uniform(*scale_exp)
    k = rng.random()

    def p():
        return complex(rng.uniform(-scale, scale), rng.uniform(-scale, scale))

    def out(kind, pts):
        return [kind] + [[z.real, z.imag] for z in pts]
    if k < 0.12:
        return out('L', [p(), p()]), ['line']
    if k < 0.17:
        return out('Q', [p(), p(), p()]), ['quad:generic']
    if k < 0.22:
        # nearly straight and nearly uniformly traversed: control point within 1e-9 .. 1e-4 chord lengths of the
        # chord midpoint (the library switches formula on |a|/|b|; every regime between "exactly linear" and
        # "ordinary" has to be right)
        s, e = p(), p()
        if s == e:
            e = s + scale
        delta = abs(e - s) * 10.0 ** rng.uniform(-9, -4.1) * cmath.exp(1j * rng.uniform(0, 2 * math.pi))
        if rng.random() < 0.3:
            delta = abs(delta) * (e - s) / abs(e - s) * rng.choice([-1, 1])      # collinear variant
        return out('Q', [s, (s + e) / 2 + delta, e]), ['quad:nearly-straight']
    if k < 0.34:
        # collinear quadratic, with / without fold-back, dyadic / non-dyadic
        dy = rng.random() < 0.5
        if dy:
            a = complex(rng.randint(-8, 8), rng.randint(-8, 8)) * scale
            d = complex(rng.randint(-4, 4), rng.randint(-4, 4)) or 1 + 0j
            u, v = rng.randint(-6, 6) / 2.0, rng.randint(-6, 6) / 2.0
            d = d * scale
        else:
            a, d = p(), p()
            u, v = rng.uniform(-3, 3), rng.uniform(-3, 3)
        pts = [a, a + u * d, a + v * d]
        fold = not (min(0, v) <= u <= max(0, v))
        return out('Q', pts), ['collinear:' + ('dyadic' if dy else 'nondyadic'), 'fold' if fold else 'nofold']
    if k < 0.42:
        a = p()
        pts = rng.choice([[a, a, p()], [a, p(), p()], [p(), a, a], [a, p(), a]])
        return out('Q', pts), ['quad:repeated']
    if k < 0.55:
        return out('C', [p(), p(), p(), p()]), ['cubic:generic']
    if k < 0.63:
        a, d = p(), p()
        us = sorted(rng.uniform(-1, 2) for _ in range(3))
        if rng.random() < 0.5:
            rng.shuffle(us)
        return out('C', [a, a + us[0] * d, a + us[1] * d, a + us[2] * d]), ['cubic:collinear']
    if k < 0.71:
        a, b, c = p(), p(), p()
        pts = rng.choice([[a, a, b, c], [a, b, c, c], [a, b, b, c], [a, b, c, a], [a, a, b, b], [a, b, b, a]])
        return out('C', pts), ['cubic:repeated']
    if k < 0.745:
        # hairpin / near-cusp: the cusp family below with d1 slightly off, so the speed has a deep but non-zero
        # interior minimum (sqrt of a quartic with complex roots next to the real axis: hard for fixed-order rules)
        a, w, v = p(), p(), p()
        d0, d2 = w, v
        d1 = -(d0 + d2) / 2 * (1 + rng.choice([-1, 1]) * 10.0 ** rng.uniform(-2.5, -1)) + \
            1j * (d0 - d2) * rng.choice([0, 0, 10.0 ** rng.uniform(-3, -1.5)])
        return out('C', [a, a + d0, a + d0 + d1, a + d0 + d1 + d2]), ['cubic:hairpin']
    if k < 0.79:
        # cusp: B'(t*) = 0 for t* = 1/2  <=>  d0 - 2 d1 + d2 ... use the classic  P0, P1, P0+ (P1-P0) rotated...
        a = p()
        w = p()
        v = p()
        # control polygon a, a+w+v, a+w-v ... symmetric cusp family: B'(1/2) = 3/4 (d0 + 2 d1 + d2)/... choose d1 = -(d0+d2)/2
        d0, d2 = w, v
        d1 = -(d0 + d2) / 2
        pts = [a, a + d0, a + d0 + d1, a + d0 + d1 + d2]
        return out('C', pts), ['cubic:cusp']
    s, e = p(), p()
    if s == e:
        e = s + 1
    ecc = rng.choice([1.0, 1.0, 2.0, 30.0, 1e3])
    r = abs(e - s) * rng.uniform(0.3, 3)
    spec = ['A', [s.real, s.imag], [r, r * ecc], rng.choice([0, 90, 33.3, rng.uniform(-400, 400)]),
            rng.random() < 0.5, rng.random() < 0.5, [e.real, e.imag]]
    return spec, ['arc', 'arc:eccentric' if ecc >= 30 else 'arc:round']


def cases(ctx):
    rng = ctx.rng
    plan = TIERS[ctx.tier]
    nosci = ctx.config == 'noscipy'
    n = (plan['random_alt'] if nosci else plan['random']) // ctx.nshards
    for i in range(n):
        if rng.random() < 0.85:
            spec, cls = _gen_seg(rng, (-1, 0.7) if nosci else (-3, 6))
            if spec[0] == 'A' and spec[1] == spec[-1]:
                continue
            t = rng.uniform(0.05, 0.95)
            a, b = sorted([rng.uniform(0, 1), rng.uniform(0, 1)])
            iv = [[0, 1], [0, t], [t, 1], [t, t], [a, b]]
            if 'cubic:cusp' in cls or 'cubic:hairpin' in cls:
                iv.append([0.3, 0.7])
            if nosci:
                iv = iv[:3] + iv[5:]
            yield {'kind': 'seg', 'seg': spec, 'iv': iv, 'cls': cls + ['config:' + ctx.config]}
        else:
            kinds = [rng.choice('LQCA') for _ in range(rng.randint(1, 4 if nosci else 6))]
            specs = gen.rand_path_specs(rng, kinds, 'half' if nosci else rng.choice(['rand', 'int']))
            if any(s[0] == 'A' and s[1] == s[-1] for s in specs):
                continue
            if rng.random() < 0.25:
                # a curved segment that ends where it starts (a loop): zero chord, positive length
                j = rng.randrange(len(specs))
                at = specs[j][1]
                c1 = [at[0] + rng.uniform(5, 60), at[1] + rng.uniform(5, 60)]
                c2 = [at[0] - rng.uniform(5, 60), at[1] + rng.uniform(5, 60)]
                loop = ['C', at, c1, c2, at] if rng.random() < 0.6 else ['Q', at, c1, at]
                specs.insert(j, loop)
            yield {'kind': 'path', 'segs': specs, 'T': sorted([rng.uniform(0, 1), rng.uniform(0, 1)]),
                   'cls': ['path', 'config:' + ctx.config]}


def run_case(ctx, case):
    ctx.branch('config:' + ctx.config)
    for c in case['cls']:
        if c in ('collinear:dyadic', 'collinear:nondyadic', 'cubic:cusp', 'arc:eccentric', 'quad:nearly-straight', 'cubic:hairpin'):
            ctx.branch(c)
    if case['kind'] == 'seg':
        s = gen.seg(case['seg'])
        vals = {}
        for t0, t1 in case['iv']:
            vals[(t0, t1)] = s.length(t0, t1)
        s.length()
        # additivity over adjacent sub-intervals (driven here, judged per call above and as a relation)
        (a0, a1), (b0, b1) = case['iv'][1], case['iv'][2]
        whole, left, right = vals[(0, 1)], vals[(a0, a1)], vals[(b0, b1)]
        if all(isinstance(v, (int, float, np.floating)) and math.isfinite(v) for v in (whole, left, right)):
            ctx.verdict()
            cusp = any('cusp' in c or 'fold' == c or 'repeated' in c or 'collinear' in c for c in case['cls'])
            tol = (1e-2 if cusp else 2e-6) * abs(whole) + 1e-11 + (2e-9 if ctx.config == 'noscipy' else 0)
            if not (abs(left + right - whole) <= tol):
                ctx.violation('additivity/' + case['cls'][0], 'length(0,t) + length(t,1) != length(0,1)',
                              {'whole': float(whole), 'left': float(left), 'right': float(right), 'tol': tol})
    else:
        p = gen.path(case['segs'])
        if any(sp[0] in 'QC' and sp[1] == sp[-1] for sp in case['segs']):
            ctx.branch('path:loop-segment')
        p.length()
        T0, T1 = case['T']
        p.length(T0, T1)
        p.length(0, T1)
        p.length(T0, 1)
        # the cached total must follow every edit made through the Path's own interface (judged by the Path.length
        # monitor against the segments).  Assigning a control point of a contained segment directly is NOT driven:
        # the Path cannot see it, the cached total goes stale, and neither C06 nor C16 quantifies over that.
        from svgpathtools import Line
        rng = random.Random(repr(case['T']))
        for step in range(3):
            k = rng.randrange(len(p))
            op = rng.choice(['del', 'set', 'insert', 'append', 'reverse-seg'])
            ctx.note('edit:' + op)
            if op == 'del' and len(p) > 1:
                del p[k]
            elif op == 'set':
                p[k] = Line(p[k].start, p[k].end + (1 + 2j))
            elif op == 'insert':
                p.insert(k, Line(p[k].start - (3 + 1j), p[k].start))
            elif op == 'append':
                p.append(Line(p[-1].end, p[-1].end + (2 - 5j)))
            elif op == 'reverse-seg':
                p[k] = p[k].reversed()
            p.length()
            p.length(T0, T1)
            ctx.branch('path:edited')


def crash_key(ctx, case, e, site):
    return 'crash/%s@%s/%s' % (type(e).__name__, site, case['cls'][0])


REGISTER = True
TECHNIQUE = 'runtime monitors on every length()/segment_length call judged against a rigorous chord/control-polygon bracket and independent Gauss-Legendre quadrature; exact test for vanishing speed; two configurations (scipy / scipy blocked at import)'
LEVEL_TEXT = ('Every length(t0,t1) evaluated during the workload must be finite, non-negative, inside the bracket [sum of chords, sum of '
              'control-polygon lengths] of a 4096-piece subdivision (1e-6 relative, 5e-3 where the speed provably vanishes inside the interval) '
              'and agree with an independent 16-point Gauss-Legendre quadrature wherever that is itself reliable; additivity is driven and '
              'checked; Path.length must be the sum / the partial sum of its segments; everything is run with scipy present and with scipy '
              'blocked before import (recursive fallback).')
LEVEL_NOTE = 'Trusts vt/ref/quad.py and exact.py; fallback configuration explored on |coord| <= 100 only (cost).'
