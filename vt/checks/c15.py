"""C15 - unit_tangent, normal and curvature are the differential geometry of the curve.

Monitors: unit_tangent / normal / curvature of every class, bezier_unit_tangent,
          segment_curvature, Path.unit_tangent, Path.curvature.
Oracle  : reference derivatives from exact-rational control-point formulas; at exactly
          singular end points the direction (with sign) of the first non-vanishing
          derivative taken from inside the interval; closed forms for arcs.
"""
import math
from fractions import Fraction as F

import numpy as np

from .. import core, gen, monitor
from ..ref import exact as X

PROP = 'C15'
CONFIGS = ['scipy']
DECIDING = ['path.bezier_unit_tangent', 'path.segment_curvature', 'Line.unit_tangent', 'Arc.unit_tangent',
            'CubicBezier.normal', 'Path.unit_tangent', 'Path.curvature']
ANCHORED = ['bezier_unit_tangent', 'segment_curvature', '.unit_tangent', '.normal', '.curvature', 'rational_limit']
RULE = ('cases = one segment with parameters t (generic segments at random and end-point t; Beziers with control1 == start and/or '
        'control2 == end heading into each of 8 directions with dyadic and non-dyadic coordinates; t as python float and as '
        'numpy.float64; arcs circular and elliptical) plus similarity-transform relations (rotation, scaling, reversal, translation) '
        'and paths; distinct by spec + parameters; non-trivial if an oracle verdict was reached')
RULE += '; triple points at either end, hooks, closed singular cubics, arcs whose radii are scaled up, paths with direction-smooth joints of unequal speed (Path.curvature judged there)'
ASSUMPTIONS = ['vt/ref/exact.py; "regular point" = |B\'(t)| > 1e-6 * curve size; points with 0 < |B\'| <= 1e-6*size are skipped as ill-conditioned',
               'at an exactly singular interior point (cusp) either sign, or a ValueError saying the tangent is not well defined, is accepted',
               'curvature is judged at regular points only (statement)']
TIERS = {
    'quick': {'shards': 14, 'random': 14000, 'timeout': 600, 'min_cases': 9000,
              'require_branches': ['singular:t=0', 'singular:t=1', 'singular:nondyadic', 'scalar:numpy', 'heading:left-half-plane',
                                   'relation:rotation', 'relation:reversal', 'relation:scaling', 'arc:circular', 'kind:path',
                                   'triple:start', 'triple:end', 'arc:radius-scaled-up', 'hook', 'closed-singular',
                                   'path:curvature-at-smooth-joint']},
    'thorough': {'shards': 14, 'random': 500000, 'timeout': 3000, 'min_cases': 250000,
                 'require_branches': ['singular:t=0', 'singular:t=1', 'singular:nondyadic', 'scalar:numpy',
                                      'heading:left-half-plane', 'relation:rotation', 'relation:reversal',
                                      'relation:scaling', 'arc:circular', 'kind:path', 'triple:start', 'triple:end',
                                      'arc:radius-scaled-up', 'hook', 'closed-singular', 'path:curvature-at-smooth-joint']},
}
EPS = gen.EPS


def _bps(seg):
    n = type(seg).__name__
    if n == 'Line':
        return [seg.start, seg.end]
    if n == 'QuadraticBezier':
        return [seg.start, seg.control, seg.end]
    if n == 'CubicBezier':
        return [seg.start, seg.control1, seg.control2, seg.end]
    return None


def _num(t):
    return isinstance(t, (int, float, np.floating, np.integer)) and not isinstance(t, bool)


def ref_tangent(bps, t):
    """(unit tangent or None, kind) ; kind in regular | singular-end | singular-interior | ill-conditioned | nodal"""
    bps = [complex(p) for p in bps]
    size = max(abs(p - bps[0]) for p in bps)
    if size == 0:
        return None, 'nodal'
    d1 = X.bez_deriv(bps, t, 1)
    if d1 != (0, 0):
        v = X.cfl(d1)
        if abs(v) > 1e-6 * size:
            return v / abs(v), 'regular'
        return None, 'ill-conditioned'
    n = len(bps) - 1
    for k in range(2, n + 1):
        dk = X.bez_deriv(bps, t, k)
        if dk != (0, 0):
            v = X.cfl(dk)
            if t == 0:
                return v / abs(v), 'singular-end'
            if t == 1:
                s = -1 if (k - 1) % 2 else 1
                return s * v / abs(v), 'singular-end'
            return v / abs(v), ('singular-interior' if (k - 1) % 2 else 'singular-end')
    return None, 'nodal'


def ref_curvature(bps, t):
    bps = [complex(p) for p in bps]
    d1, d2 = X.cfl(X.bez_deriv(bps, t, 1)), X.cfl(X.bez_deriv(bps, t, 2))
    sp = abs(d1)
    if sp == 0:
        return None
    return abs(d1.real * d2.imag - d1.imag * d2.real) / sp ** 3


def judge_tangent(ctx, name, seg, t, ret=None, exc=None):
    bps = _bps(seg)
    want, kind = ref_tangent(bps, t)
    tag = kind
    if kind == 'singular-end':
        ctx.branch('singular:t=%s' % ('0' if t == 0 else '1' if t == 1 else 'interior'))
        if any(F(float(x)).denominator > 2 ** 20 for p in bps for x in (complex(p).real, complex(p).imag)):
            ctx.branch('singular:nondyadic')
        if want.real < 0:
            ctx.branch('heading:left-half-plane')
    if isinstance(t, np.floating):
        ctx.branch('scalar:numpy')
    if kind in ('ill-conditioned', 'nodal'):
        ctx.skip('tangent not judged: ' + kind)
        return False
    ctx.verdict()
    sc = 'numpy-t' if isinstance(t, np.floating) else 'py-t'
    if exc is not None:
        if kind == 'singular-interior' and isinstance(exc, ValueError):
            return True
        ctx.violation('%s/raises/%s/%s' % (name, kind, type(exc).__name__),
                      'unit_tangent raised %s at a %s point' % (type(exc).__name__, kind),
                      {'seg': gen.seg_spec(seg), 't': float(t), 'exc': str(exc)[:100]})
        return True
    try:
        u = complex(ret)
    except (TypeError, ValueError):
        ctx.violation('%s/not-a-number' % name, 'unit_tangent returned %r' % (ret,))
        return True
    if not (abs(abs(u) - 1) <= 1e-9):
        ctx.violation('%s/modulus/%s/%s' % (name, kind, sc), 'unit_tangent does not have modulus 1',
                      {'seg': gen.seg_spec(seg), 't': float(t), 'got': repr(u)})
        return True
    tol = 1e-9 if kind == 'regular' else 1e-6
    if kind == 'singular-interior':
        ok = abs(u - want) <= tol or abs(u + want) <= tol
    else:
        ok = abs(u - want) <= tol
    if not ok:
        how = 'opposite-direction' if abs(u + want) <= 1e-6 else 'wrong-direction'
        ctx.violation('%s/%s/%s/%s' % (name, how, kind, sc),
                      'unit_tangent is not the direction of travel (%s point)' % kind,
                      {'seg': gen.seg_spec(seg), 't': float(t), 'got': repr(u), 'want': repr(want)})
    return True


def post_but(call):
    seg, t = call.a.get('seg'), call.a.get('t')
    if _bps(seg) is None or not _num(t):
        return False
    return judge_tangent(core.CTX, 'bezier_unit_tangent', seg, t, ret=call.ret)


def exc_but(call):
    seg, t = call.a.get('seg'), call.a.get('t')
    if _bps(seg) is None or not _num(t):
        return False
    return judge_tangent(core.CTX, 'bezier_unit_tangent', seg, t, exc=call.exc)


def post_line_ut(call):
    ctx = core.CTX
    s = call.args[0]
    d = complex(s.end) - complex(s.start)
    if d == 0:
        return False
    ctx.verdict()
    if not (abs(complex(call.ret) - d / abs(d)) <= 1e-12):
        ctx.violation('Line.unit_tangent', 'Line.unit_tangent is not (end-start)/|end-start|', {'got': repr(call.ret)})
    return True


def _arc_d(a, t, n):
    k = math.radians(float(a.delta))
    ang = math.radians(float(a.theta) + float(t) * float(a.delta)) + n * math.pi / 2
    c, s = math.cos(math.radians(a.rotation)), math.sin(math.radians(a.rotation))
    x, y = a.radius.real * math.cos(ang), a.radius.imag * math.sin(ang)
    return (k ** n) * complex(c * x - s * y, s * x + c * y)


def post_arc_ut(call):
    ctx = core.CTX
    a, t = call.args[0], call.a.get('t')
    if not _num(t):
        return False
    d = _arc_d(a, t, 1)
    if d == 0:
        return False
    ctx.verdict()
    if not (abs(complex(call.ret) - d / abs(d)) <= 1e-9):
        ctx.violation('Arc.unit_tangent', 'Arc.unit_tangent is not derivative/|derivative|',
                      {'arc': gen.seg_spec(a), 't': float(t), 'got': repr(call.ret), 'want': repr(d / abs(d))})
    return True


def post_normal(call):
    ctx = core.CTX
    s = call.args[0]
    t = call.a.get('t')
    try:
        with monitor.suspended():
            u = s.unit_tangent(t)
    except Exception:
        return False
    ctx.verdict()
    got, want = complex(call.ret), -1j * complex(u)
    if not (got == want or (got != got and want != want)):
        ctx.violation('normal/%s' % type(s).__name__, 'normal(t) is not -1j*unit_tangent(t)',
                      {'got': repr(got), 'want': repr(want)})
    return True


def judge_curvature(ctx, name, seg, t, ret):
    n = type(seg).__name__
    if n == 'Line':
        ctx.verdict()
        if not (ret == 0):
            ctx.violation('curvature/Line', 'curvature of a line is not 0', {'got': repr(ret)})
        return True
    if n == 'Arc':
        d1, d2 = _arc_d(seg, t, 1), _arc_d(seg, t, 2)
        size = max(seg.radius.real, seg.radius.imag)
        if seg.radius.real == seg.radius.imag:
            ctx.branch('arc:circular')
            want = 1 / seg.radius.real
        else:
            want = abs(d1.real * d2.imag - d1.imag * d2.real) / abs(d1) ** 3
    else:
        bps = _bps(seg)
        _, kind = ref_tangent(bps, t)
        if kind != 'regular':
            ctx.skip('curvature not judged: ' + kind)
            return False
        want = ref_curvature(bps, t)
        size = max(abs(complex(p) - complex(bps[0])) for p in bps)
        d1, d2 = X.cfl(X.bez_deriv(bps, t, 1)), X.cfl(X.bez_deriv(bps, t, 2))
    # rounding of the cross product x'y'' - y'x'' (it cancels completely on straight pieces)
    cancel = 256 * EPS * (abs(d2) + abs(d1)) / abs(d1) ** 2
    # ... and B', B'' themselves are only known to eps*|P| (they are differences of control points / power-basis
    # coefficients): next to a cusp, where |B'| is tiny, that error is what is left of the cross product
    if n != 'Arc':
        mag = max(abs(complex(q)) for q in bps)
        cancel += 64 * EPS * mag * (abs(d2) + abs(d1)) / abs(d1) ** 3
    ctx.verdict()
    try:
        got = float(ret)
    except (TypeError, ValueError):
        ctx.violation('curvature/%s/not-a-number' % n, 'curvature returned %r' % (ret,))
        return True
    if not (abs(got - want) <= 1e-7 * want + 1e-9 / size + cancel):
        ctx.violation('curvature/%s%s' % (name, n), 'curvature differs from |x\'y\'\'-y\'x\'\'|/|B\'|^3',
                      {'seg': gen.seg_spec(seg), 't': float(t), 'got': got, 'want': want})
    return True


def post_seg_curv(call):
    seg, t = call.a.get('self'), call.a.get('t')
    if not _num(t) or call.a.get('use_inf'):
        return False
    return judge_curvature(core.CTX, '', seg, t, call.ret)


def post_line_curv(call):
    return judge_curvature(core.CTX, '', call.args[0], call.a.get('t'), call.ret)


def post_path_ut(call):
    ctx = core.CTX
    p, T = call.args[0], call.a.get('T')
    if not _num(T) or len(p) == 0:
        return False
    with monitor.suspended():
        try:
            k, t = p.T2t(T)
            want = p[k].unit_tangent(t)
        except Exception:
            return False
    ctx.verdict()
    ctx.branch('kind:path')
    if not (abs(complex(call.ret) - complex(want)) <= 1e-12):
        ctx.violation('Path.unit_tangent', 'Path.unit_tangent(T) is not the owning segment\'s unit tangent at T2t(T)',
                      {'T': float(T), 'got': repr(call.ret), 'want': repr(want)})
    return True


def post_path_curv(call):
    ctx = core.CTX
    p, T = call.args[0], call.a.get('T')
    if not _num(T) or len(p) == 0:
        return False
    with monitor.suspended():
        try:
            k, t = p.T2t(T)
        except Exception:
            return False
    if t < 2e-5 or t > 1 - 2e-5:
        # (the library treats T within np.isclose of a joint - 1e-5 in t - as the joint itself)
        # at a joint the path's curvature is that of the owning segment if the two unit tangents agree (the docstring
        # promises inf only where the path is not differentiable); speeds may differ - curvature does not depend on
        # the parameterisation.  Judged for Bezier/Line neighbours whose reference tangents agree to 1e-9.
        j = k - 1 if t < 2e-5 else k + 1
        if not (0 <= j < len(p)) or type(p[k]).__name__ == 'Arc' or type(p[j]).__name__ == 'Arc':
            ctx.skip('Path.curvature at a joint (may legitimately be inf)')
            return False
        a, b = (p[j], p[k]) if t < 2e-5 else (p[k], p[j])
        if a.end != b.start:
            ctx.skip('Path.curvature at a joint (may legitimately be inf)')
            return False
        ta, ka = ref_tangent(_bps(a), 1)
        tb, kb = ref_tangent(_bps(b), 0)
        if ta is None or tb is None or ka != 'regular' or kb != 'regular' or abs(ta - tb) > 1e-9:
            ctx.skip('Path.curvature at a joint (may legitimately be inf)')
            return False
        ctx.branch('path:curvature-at-smooth-joint')
        if not math.isfinite(float(call.ret)):
            ctx.verdict()
            ctx.violation('Path.curvature/inf-at-smooth-joint', 'Path.curvature is inf at a joint whose unit tangents agree',
                          {'T': float(T), 'k': k, 't': float(t), 'path': gen.path_spec(p)})
            return True
    return judge_curvature(ctx, 'Path:', p[k], min(1.0, max(0.0, float(t))), call.ret)


def install(ctx):
    import svgpathtools.path as P
    monitor.install(P, 'bezier_unit_tangent', post=post_but, on_exc=exc_but)
    monitor.install(P, 'segment_curvature', post=post_seg_curv)
    monitor.install(P.Line, 'unit_tangent', post=post_line_ut)
    monitor.install(P.Arc, 'unit_tangent', post=post_arc_ut)
    monitor.install(P.Line, 'curvature', post=post_line_curv)
    for cls in (P.Line, P.QuadraticBezier, P.CubicBezier, P.Arc):
        monitor.install(cls, 'normal', post=post_normal)
    monitor.install(P.Path, 'unit_tangent', post=post_path_ut)
    monitor.install(P.Path, 'curvature', post=post_path_curv)


# --------------------------------------------------------------------------
def cases(ctx):
    rng = ctx.rng
    n = TIERS[ctx.tier]['random'] // ctx.nshards
    for i in range(n):
        k = rng.random()
        cls = []
        scalar = rng.choice(['py', 'py', 'np'])
        if k < 0.35:
            # singular end points heading into 8 directions
            kind = rng.choice('QCC')
            dy = rng.random() < 0.5
            head = rng.randrange(8) * 45 + (0 if rng.random() < 0.5 else rng.uniform(-20, 20))
            d = complex(math.cos(math.radians(head)), math.sin(math.radians(head)))
            if dy:
                d = complex(round(d.real * 4) / 4, round(d.imag * 4) / 4) or 1 + 0j
                s0 = complex(rng.randint(-8, 8), rng.randint(-8, 8))
                sc = 2.0 ** rng.randint(-2, 4)
            else:
                s0 = gen.cpoint(rng, 'rand')
                sc = rng.uniform(0.1, 30)
            where = rng.choice(['start', 'end', 'both'])
            perp = 1j * d
            if kind == 'Q':
                c = s0 if where != 'end' else s0 + sc * (d + 0.3 * perp)
                e = s0 + sc * (2 * d + 0.5 * perp)
                if where in ('end', 'both'):
                    c = e if where == 'end' else s0
                pts = [s0, c, e]
                if where == 'both':
                    pts = [s0, s0, e]
            else:
                e = s0 + sc * (3 * d + 0.4 * perp)
                c1 = s0 if where in ('start', 'both') else s0 + sc * (d + 0.5 * perp)
                c2 = e if where in ('end', 'both') else s0 + sc * (2 * d + 0.3 * perp)
                if rng.random() < 0.25 and where != 'both':
                    # a hook: the curve leaves its start (arrives at its end) pointing AWAY from the other end
                    if where == 'start':
                        c2 = s0 + sc * (-1.5 * d + 0.6 * perp)
                    else:
                        c1 = e + sc * (1.5 * d - 0.6 * perp)
                    cls.append('hook')
                elif rng.random() < 0.08:
                    e = s0                      # closed cubic with a singular end
                    c2 = e if where in ('end', 'both') else c2
                    cls.append('closed-singular')
                if rng.random() < 0.15 and where == 'start':
                    c2 = s0                     # triple point at the start: first non-vanishing derivative is B'''
                    cls.append('triple:start')
                elif rng.random() < 0.18 and where == 'end':
                    c1 = e                      # ... and at the end (approached from below: the sign matters)
                    cls.append('triple:end')
                pts = [s0, c1, c2, e]
            spec = [kind] + [[z.real, z.imag] for z in pts]
            ts = [0, 1, 0.0, 1.0, rng.uniform(0, 1)]
            cls += ['singular-ends', 'where:' + where, 'dyadic' if dy else 'nondyadic']
        elif k < 0.6:
            kind = rng.choice('LQCC')
            spec = gen.rand_seg_spec(rng, kind, gen.cpoint(rng, 'rand'), rng.choice(['rand', 'int', 'half']))
            if spec[0] == 'L' and spec[1] == spec[2]:
                continue
            ts = [0, 1, rng.uniform(0, 1), rng.uniform(0, 1), rng.randint(0, 8) / 8.0]
            cls.append('generic:' + kind)
        elif k < 0.8:
            s0 = gen.cpoint(rng, 'rand')
            e = gen.distinct_point(rng, 'rand', [s0])
            r = abs(e - s0) * rng.uniform(0.5, 3)
            circ = rng.random() < 0.5
            if rng.random() < 0.25:
                r = abs(e - s0) * rng.uniform(0.05, 0.499)      # radii too small for the chord: scaled up (F.6.6)
                cls.append('arc:radius-scaled-up')
            spec = ['A', [s0.real, s0.imag], [r, r if circ else r * rng.uniform(0.2, 4)],
                    rng.choice([0, 45.0, rng.uniform(-180, 180)]), rng.random() < .5, rng.random() < .5, [e.real, e.imag]]
            ts = [0, 1, rng.uniform(0, 1), rng.uniform(0, 1)]
            cls.append('arc')
        else:
            if rng.random() < 0.3:
                # joints that are smooth in direction but not in speed: a cubic cut (exactly: integer control points,
                # dyadic cut) at s != 1/2 by the oracle's own de Casteljau, and collinear lines of unequal length
                pts = [complex(rng.randint(-20, 20), rng.randint(-20, 20)) for _ in range(4)]
                if len(set(pts)) < 4:
                    continue
                cut = rng.choice([0.25, 0.75, 0.125, 0.375])
                le, ri = X.split(pts, cut)
                le = [[float(a), float(b)] for a, b in le]
                ri = [[float(a), float(b)] for a, b in ri]
                dirn = complex(*ri[3]) - complex(*ri[2])
                if dirn == 0:
                    continue
                e1 = complex(*ri[3]) + dirn * 0.5
                e2 = e1 + dirn * 2.5
                specs = [['C'] + le, ['C'] + ri, ['L', ri[3], [e1.real, e1.imag]], ['L', [e1.real, e1.imag], [e2.real, e2.imag]]]
                yield {'kind': 'path', 'segs': specs, 'Ts': [rng.uniform(0.01, 0.99)], 'joints': True,
                       'cls': ['path', 'path:smooth-joints']}
                continue
            kinds = [rng.choice('LQCA') for _ in range(rng.randint(2, 5))]
            specs = gen.rand_path_specs(rng, kinds, 'rand')
            if any(s[0] == 'A' and s[1] == s[-1] for s in specs) or any(s[0] == 'L' and s[1] == s[2] for s in specs):
                continue
            yield {'kind': 'path', 'segs': specs, 'Ts': [rng.uniform(0.01, 0.99) for _ in range(4)], 'cls': ['path']}
            continue
        yield {'kind': 'seg', 'seg': spec, 'ts': ts, 'scalar': scalar,
               'rel': {'deg': rng.uniform(-180, 180), 's': rng.choice([0.5, 2.0, -1.5, rng.uniform(0.1, 10)]),
                       'z': [rng.uniform(-50, 50), rng.uniform(-50, 50)]},
               'cls': cls + ['scalar:' + scalar]}


def _safe(f, *a):
    try:
        return f(*a)
    except Exception:
        return None


def run_case(ctx, case):
    if case['kind'] == 'path':
        p = gen.path(case['segs'])
        Ts = list(case['Ts'])
        if case.get('joints'):
            ctx.branch('path:smooth-joints')
            for k in range(len(p) - 1):
                with monitor.suspended():
                    Ts += [p.t2T(k, 1.0), p.t2T(k, 1 - 1e-9), p.t2T(k + 1, 1e-9)]
        for T in Ts:
            _safe(p.unit_tangent, T)
            _safe(p.curvature, T)
            _safe(p.normal, T)
        return
    s = gen.seg(case['seg'])
    for c in case['cls']:
        if c in ('triple:start', 'triple:end', 'arc:radius-scaled-up', 'hook', 'closed-singular'):
            ctx.branch(c)
    ts = case['ts']
    if case['scalar'] == 'np':
        ts = [np.float64(t) for t in ts]
    vals = {}
    for t in ts:
        vals[float(t)] = _safe(s.unit_tangent, t)
        _safe(s.normal, t)
        _safe(s.curvature, t)
    # relations under similarity transforms (regular points only; library values against library values)
    rel = case['rel']
    bps = _bps(s)
    t = float(ts[-1])
    if bps is not None:
        _, kind = ref_tangent(bps, t)
        if kind != 'regular':
            return
    u0 = vals.get(t)
    k0 = _safe(s.curvature, t)
    if u0 is None or k0 is None:
        return
    u0 = complex(u0)
    kslack = 0.0
    if bps is not None:
        e1, e2 = X.cfl(X.bez_deriv(bps, t, 1)), X.cfl(X.bez_deriv(bps, t, 2))
        kslack = 4096 * EPS * (abs(e2) + abs(e1)) / abs(e1) ** 2 * (1 + (abs(complex(*rel['z'])) + max(abs(complex(p)) for p in bps)) / (abs(e1) + 1e-300))
    w = complex(math.cos(math.radians(rel['deg'])), math.sin(math.radians(rel['deg'])))
    checks = [
        ('rotation', s.rotated(rel['deg'], origin=0j), t, u0 * w, 1.0),
        ('translation', s.translated(complex(*rel['z'])), t, u0, 1.0),
        ('scaling', s.scaled(rel['s']), t, u0 * (1 if rel['s'] > 0 else -1), abs(rel['s'])),
        ('reversal', s.reversed(), 1 - t, -u0, 1.0),
    ]
    for name, obj, tt, want_u, kdiv in checks:
        ctx.branch('relation:' + name)
        u = _safe(obj.unit_tangent, tt)
        kk = _safe(obj.curvature, tt)
        if u is None or kk is None:
            continue
        ctx.verdict()
        arc = type(s).__name__ == 'Arc'
        if not (abs(complex(u) - want_u) <= (1e-6 if arc else 1e-7)):
            ctx.violation('relation/%s/tangent/%s' % (name, type(s).__name__),
                          'unit tangent does not transform correctly under %s' % name,
                          {'seg': gen.seg_spec(s), 't': t, 'got': repr(u), 'want': repr(want_u), 'rel': rel})
        elif not (abs(float(kk) - float(k0) / kdiv) <= 1e-5 * abs(float(k0) / kdiv) + 1e-12 + kslack / kdiv):
            ctx.violation('relation/%s/curvature/%s' % (name, type(s).__name__),
                          'curvature does not transform correctly under %s' % name,
                          {'seg': gen.seg_spec(s), 't': t, 'got': float(kk), 'want': float(k0) / kdiv, 'rel': rel})


def crash_key(ctx, case, e, site):
    return 'crash/%s@%s/%s' % (type(e).__name__, site, case['kind'])


REGISTER = True
TECHNIQUE = 'runtime monitors on unit_tangent/normal/curvature (segments, arcs, paths) against exact-rational derivative formulas, with the signed limit at exactly singular end points; driven similarity-transform relations'
LEVEL_TEXT = ('Every unit_tangent/normal/curvature evaluation of the workload is judged: modulus 1, equal to B\'/|B\'| at regular points, equal WITH SIGN '
              'to the first non-vanishing derivative taken from inside the interval where B\' vanishes exactly at an end point (all 8 headings, dyadic '
              'and non-dyadic coordinates, python and numpy scalars), normal = -1j*tangent, curvature formula at regular points (1/r on circular '
              'arcs, 0 on lines), and the behaviour under rotation, scaling, reversal and translation.')
LEVEL_NOTE = 'Trusts vt/ref/exact.py; points with 0 < |B\'| <= 1e-6*size are not judged; interior cusps accept either sign or a ValueError.'
