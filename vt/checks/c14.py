"""C14 - area() is the signed enclosed area; enclosure tests agree with crossing parity.

Monitors: Path.area, path_encloses_pt, Path.is_contained_by.
Oracle  : exact Green integral of x dy over exact-rational Bernstein polynomials (closed-form
          sector integral for arcs); even-odd enclosure as the parity of the winding number
          (independent of the probe); the statement's precondition on the probe is decided by
          an independent dense sweep.
"""
import math
from fractions import Fraction as F

import numpy as np

from .. import core, gen, monitor
from ..ref import exact as X
from . import _isect as I

PROP = 'C14'
CONFIGS = ['scipy']
DECIDING = ['Path.area', 'path.path_encloses_pt', 'Path.is_contained_by']
ANCHORED = ['Path.area', 'path_encloses_pt', 'Path.is_contained_by']
RULE = ('cases = a closed path (polygons convex / concave / self-intersecting, both orientations; closed Bezier paths; circles and '
        'ellipses of two arcs; mixed) with (a) its area and the metamorphic relations reversed / translated / scaled, (b) query points '
        'in 1.5x the bounding box with an outside point, (c) a second path nested / disjoint / crossing for is_contained_by; distinct '
        'by spec; non-trivial if an oracle verdict was reached')
RULE += '; axis-parallel probes; grid-aligned coordinates and a construction whose inner start is level with notch tips of the outer path; boxes with a thin slit 1e4..1e6 sizes away from the origin (probe crosses both slit walls)'
ASSUMPTIONS = ['vt/ref/exact.py; the winding number is accumulated over 2048 samples per segment and points closer than 1e-6*size to the path are skipped',
               'the probe precondition (transversal >= 5 degrees, >= 1e-3*size from every joint, no other approach within 1e-4*size) is decided from 2048-sample polylines',
               'arc areas: tolerance = chord approximation bound L*chord^2*kappa_max/8']
TIERS = {
    'quick': {'shards': 14, 'random': 1700, 'timeout': 900, 'min_cases': 1000, 'max_timeouts': 5,
              'require_branches': ['shape:polygon', 'shape:bezier', 'shape:arcs', 'orientation:cw', 'orientation:ccw',
                                   'enclosed:True', 'enclosed:False', 'contained:True', 'contained:False',
                                   'relation:reversed', 'shape:self-intersecting', 'probe:axis-parallel', 'coords:grid-aligned', 'coords:far-from-origin-thin-slit']},
    'thorough': {'shards': 14, 'random': 90000, 'timeout': 3400, 'min_cases': 50000, 'max_timeouts': 100,
                 'require_branches': ['shape:polygon', 'shape:bezier', 'shape:arcs', 'orientation:cw', 'orientation:ccw',
                                      'enclosed:True', 'enclosed:False', 'contained:True', 'contained:False',
                                      'relation:reversed', 'shape:self-intersecting', 'probe:axis-parallel', 'coords:grid-aligned', 'coords:far-from-origin-thin-slit']},
}
CASE_TIMEOUT = 30
EPS = gen.EPS


def exact_area_bezier(bps):
    """integral_0^1 x(t) y'(t) dt, exact"""
    re = [F(complex(p).real) for p in bps]
    im = [F(complex(p).imag) for p in bps]
    px = X.power_coeffs_real(re)
    dy = X.pderiv(X.power_coeffs_real(im))
    prod = X.pmul(px, dy)
    n = len(prod)
    return sum(c / (n - i) for i, c in enumerate(prod))     # term c t^(n-1-i) integrates to c/(n-i)


def arc_area(a):
    """integral of x dy along the arc (closed form from the centre parameterisation)"""
    phi = math.radians(a.rotation)
    rx, ry = a.radius.real, a.radius.imag
    cx = a.center.real
    A, B = rx * math.cos(phi), -ry * math.sin(phi)         # x = cx + A cos + B sin
    C, D = ry * math.cos(phi), -rx * math.sin(phi)         # dy = (C cos + D sin) dtheta
    t1 = math.radians(float(a.theta))
    t2 = math.radians(float(a.theta) + float(a.delta))

    def G(t):
        return (cx * (C * math.sin(t) - D * math.cos(t)) + A * C * (t / 2 + math.sin(2 * t) / 4) +
                (A * D + B * C) * (math.sin(t) ** 2 / 2) + B * D * (t / 2 - math.sin(2 * t) / 4))
    return G(t2) - G(t1)


def ref_area(p, chord_length):
    tot = F(0)
    arcs = 0.0
    slack = 0.0
    for s in p:
        if type(s).__name__ == 'Arc':
            arcs += arc_area(s)
            rx, ry = s.radius.real, s.radius.imag
            kmax = max(rx, ry) / min(rx, ry) ** 2
            L = abs(math.radians(s.delta)) * max(rx, ry)
            n = max(1, math.ceil(L / chord_length))
            ch = L / n
            slack += L * ch * ch * kmax / 8 + 1e-9 * rx * ry
        else:
            tot += exact_area_bezier(I.bps_of(s))
    return float(tot) + arcs, slack


def path_samples(p, n=2048):
    cache = p.__dict__.setdefault('_vt_samples', {})
    key = (n, tuple(id(s) for s in p))
    if key not in cache:
        cache.clear()
        cache[key] = np.concatenate([I.samples(s, n + 1)[:-1] for s in p] + [np.array([complex(p[-1].end)])])
    return cache[key]


def winding_parity(p, z, size):
    pts = path_samples(p)
    d = np.abs(pts - z)
    if d.min() < 1e-6 * size:
        return None
    ang = np.angle((pts[1:] - z) / (pts[:-1] - z))
    w = ang.sum() / (2 * math.pi)
    wi = int(round(w))
    if abs(w - wi) > 1e-3:
        return None
    return wi % 2 == 1


def probe_in_general_position(p, pt, opt, size):
    """independent decision of the statement's precondition on the probe segment pt -> opt"""
    import svgpathtools.path as P
    if pt == opt:
        return False, 'degenerate probe'
    pts = path_samples(p)
    a0, a1 = pts[:-1], pts[1:]
    r = opt - pt
    # parameter of each polyline vertex along / across the probe
    rel = (pts - pt) / r
    u, v = rel.real, rel.imag * abs(r)          # v = signed distance from the probe line
    du = u
    near_seg = (du > -1e-3) & (du < 1 + 1e-3)
    # crossings: sign changes of v between consecutive samples with u inside [0,1]
    sgn = np.sign(v)
    cross = np.nonzero((sgn[1:] * sgn[:-1] <= 0) & near_seg[1:] & near_seg[:-1])[0]
    joints = np.array([complex(s.start) for s in p])
    # two crossings at (nearly) the same point: the probe passes through a point where the path meets itself (a
    # self-intersection, or an edge traced twice) - as little general position as passing through a joint
    zs = sorted(((a0[i] + a1[i]) / 2 - pt) / r for i in cross)
    zs = [z.real for z in zs]
    zs.sort()
    if any(b - a < 1e-3 * size / abs(r) for a, b in zip(zs, zs[1:])):
        return False, 'two crossings within 1e-3*size of each other'
    for i in cross:
        zc = (a0[i] + a1[i]) / 2
        seg_dir = a1[i] - a0[i]
        if abs(seg_dir) == 0:
            return False, 'stationary sample at a crossing'
        s = abs((seg_dir / abs(seg_dir) * (r / abs(r)).conjugate()).imag)
        if s < math.sin(math.radians(5)):
            return False, 'crossing under 5 degrees'
        if np.abs(joints - zc).min() < 1e-3 * size:
            return False, 'crossing within 1e-3*size of a joint'
        uu = ((zc - pt) / r).real
        if uu < 1e-3 or uu > 1 - 1e-3:
            return False, 'crossing at an end of the probe'
    # non-crossing close approaches: local minima of |v| (with u inside) that are not crossings
    av = np.abs(v)
    inside = near_seg
    cand = np.nonzero((av[1:-1] <= av[:-2]) & (av[1:-1] <= av[2:]) & inside[1:-1])[0] + 1
    crossset = set(int(i) for i in cross) | set(int(i) + 1 for i in cross) | set(int(i) - 1 for i in cross)
    for i in cand:
        if int(i) in crossset:
            continue
        if av[i] < 1e-4 * size:
            return False, 'non-crossing approach within 1e-4*size'
    return True, len(cross)


def post_area(call):
    ctx = core.CTX
    p = call.args[0]
    ch = call.a.get('chord_length', 1e-4)
    want, slack = ref_area(p, float(ch))
    size = max(I.diag(s) for s in p)
    mag = max(abs(z) for s in p for z in (I.bps_of(s) or [s.start, s.end, s.center]))
    tol = 64 * EPS * len(p) * (size + mag) ** 2 + slack + 1e-12 * abs(want)
    ctx.verdict()
    ctx.branch('orientation:ccw' if want > 0 else 'orientation:cw')
    got = float(call.ret)
    if not (abs(got - want) <= tol):
        how = 'sign' if abs(got + want) <= tol else 'value'
        ctx.violation('area/%s/%s' % (how, 'arcs' if slack else 'bezier'),
                      'area() differs from the Green integral of x dy', {'got': got, 'want': want, 'tol': tol,
                                                                          'path': gen.path_spec(p)})
    return True


def post_encloses(call):
    ctx = core.CTX
    pt, opt, p = call.a.get('pt'), call.a.get('opt'), call.a.get('path')
    pt, opt = complex(pt), complex(opt)
    size = max(max(I.diag(s) for s in p), 1e-300)
    ok, why = probe_in_general_position(p, pt, opt, size)
    if not ok:
        ctx.skip('probe not in general position: ' + str(why))
        return False
    want = winding_parity(p, pt, size)
    if want is None:
        ctx.skip('point on the path (or winding number unclear)')
        return False
    out = winding_parity(p, opt, size)
    if out is not False:
        ctx.skip('the given outside point is not outside')
        return False
    ctx.verdict()
    ctx.branch('enclosed:%s' % want)
    if bool(call.ret) != want:
        ctx.violation('path_encloses_pt/%s' % ('false-positive' if call.ret else 'false-negative'),
                      'path_encloses_pt disagrees with the even-odd (winding parity) enclosure',
                      {'pt': repr(pt), 'opt': repr(opt), 'got': bool(call.ret), 'want': want, 'probe_crossings': why,
                       'path': gen.path_spec(p)})
    return True


def post_contained(call):
    ctx = core.CTX
    inner, outer = call.args[0], call.a.get('other')
    size = max(max(I.diag(s) for s in outer), max(I.diag(s) for s in inner), 1e-300)
    # crossing? (independent sweep over polylines); ambiguous when the paths come within 1e-6*size
    pi, po = path_samples(inner, 160), path_samples(outer, 160)
    dmin = min(_pts_to_polyline(pi, po), _pts_to_polyline(po, pi))
    crosses = _polyline_paths_cross(pi, po)
    if not crosses and dmin < 1e-4 * size:
        ctx.skip('paths nearly touch')
        return False
    if crosses:
        want = False
    else:
        pt = complex(inner.point(0))
        xs, ys = po.real, po.imag
        opt = complex(xs.min() - 1, ys.min() - 1)
        want = winding_parity(outer, pt, size)
        if want is None:
            ctx.skip('inner start on the outer path')
            return False
        if want:
            ok, why = probe_in_general_position(outer, pt, opt, size)
            if not ok:
                ctx.skip('implied probe not in general position: ' + str(why))
                return False
        else:
            # outside: either the bbox shortcut or the probe decides; the probe must still be generic
            ok, why = probe_in_general_position(outer, pt, opt, size)
            if not ok:
                ctx.skip('implied probe not in general position: ' + str(why))
                return False
    ctx.verdict()
    ctx.branch('contained:%s' % want)
    if bool(call.ret) != want:
        ctx.violation('is_contained_by/%s%s' % ('false-positive' if call.ret else 'false-negative',
                                                 '/crossing-paths' if crosses else ''),
                      'is_contained_by != (paths do not cross and the inner start is enclosed)',
                      {'got': bool(call.ret), 'want': want, 'crosses': bool(crosses),
                       'inner': gen.path_spec(inner), 'outer': gen.path_spec(outer)})
    return True


def _pts_to_polyline(pts, poly):
    """smallest distance from the points to the segments of the polyline (true point-to-segment distances)"""
    a, b = poly[:-1][None, :], poly[1:][None, :]
    z = pts[:, None]
    d = b - a
    L2 = (d.real ** 2 + d.imag ** 2)
    with np.errstate(divide='ignore', invalid='ignore'):
        u = np.where(L2 > 0, ((z - a).real * d.real + (z - a).imag * d.imag) / np.where(L2 > 0, L2, 1), 0.0)
    u = np.clip(u, 0, 1)
    return float(np.abs(z - (a + u * d)).min())


def _polyline_paths_cross(pa, pb):
    a0, a1 = pa[:-1][:, None], pa[1:][:, None]
    b0, b1 = pb[:-1][None, :], pb[1:][None, :]
    R, S = a1 - a0, b1 - b0
    den = R.real * S.imag - R.imag * S.real
    QP = b0 - a0
    with np.errstate(divide='ignore', invalid='ignore'):
        t = (QP.real * S.imag - QP.imag * S.real) / den
        u = (QP.real * R.imag - QP.imag * R.real) / den
    return bool(np.any((den != 0) & (t >= 0) & (t <= 1) & (u >= 0) & (u <= 1)))


def install(ctx):
    import svgpathtools.path as P
    monitor.install(P.Path, 'area', post=post_area)
    monitor.install(P, 'path_encloses_pt', post=post_encloses)
    monitor.install(P.Path, 'is_contained_by', post=post_contained)


# --------------------------------------------------------------------------
def _polygon(rng, kind, scale, centre):
    n = rng.randint(3, 9)
    if kind == 'convex':
        angs = sorted(rng.uniform(0, 2 * math.pi) for _ in range(n))
        pts = [centre + scale * rng.uniform(0.8, 1.0) * complex(math.cos(a), math.sin(a)) for a in angs]
    elif kind == 'concave':
        angs = sorted(rng.uniform(0, 2 * math.pi) for _ in range(n + 2))
        pts = [centre + scale * rng.choice([0.35, 1.0]) * rng.uniform(0.9, 1.0) * complex(math.cos(a), math.sin(a))
               for a in angs]
    else:
        pts = [centre + gen.scaled_point(rng, scale) for _ in range(n)]
    return pts


def _closed_specs(rng, scale, centre):
    k = rng.random()
    cls = []
    if k < 0.4:
        kind = rng.choice(['convex', 'concave', 'self-intersecting'])
        pts = _polygon(rng, kind, scale, centre)
        if len(set(pts)) < len(pts):
            return None, None
        if rng.random() < 0.5:
            pts.reverse()
        specs = [['L', [a.real, a.imag], [b.real, b.imag]] for a, b in zip(pts, pts[1:] + pts[:1])]
        cls += ['shape:polygon'] + (['shape:self-intersecting'] if kind == 'self-intersecting' else [])
    elif k < 0.7:
        kind = rng.choice(['convex', 'concave', 'self-intersecting'])
        pts = _polygon(rng, kind, scale, centre)
        if len(set(pts)) < len(pts):
            return None, None
        if rng.random() < 0.5:
            pts.reverse()
        specs = []
        for a, b in zip(pts, pts[1:] + pts[:1]):
            t = rng.choice('LQC')
            if t == 'L':
                specs.append(['L', [a.real, a.imag], [b.real, b.imag]])
            elif t == 'Q':
                c = (a + b) / 2 + 1j * (b - a) * rng.uniform(-0.4, 0.4)
                specs.append(['Q', [a.real, a.imag], [c.real, c.imag], [b.real, b.imag]])
            else:
                c1 = a + (b - a) / 3 + 1j * (b - a) * rng.uniform(-0.4, 0.4)
                c2 = a + 2 * (b - a) / 3 + 1j * (b - a) * rng.uniform(-0.4, 0.4)
                specs.append(['C', [a.real, a.imag], [c1.real, c1.imag], [c2.real, c2.imag], [b.real, b.imag]])
        cls += ['shape:bezier'] + (['shape:self-intersecting'] if kind == 'self-intersecting' else [])
    else:
        rx = scale * rng.uniform(0.5, 1)
        ry = rx if rng.random() < 0.5 else scale * rng.uniform(0.3, 1)
        rot = rng.choice([0, 0, 30.0, rng.uniform(0, 180)]) if rx != ry else 0
        w = complex(math.cos(math.radians(rot)), math.sin(math.radians(rot)))
        a, b = centre - rx * w, centre + rx * w
        sw = rng.random() < 0.5
        specs = [['A', [a.real, a.imag], [rx, ry], rot, False, sw, [b.real, b.imag]],
                 ['A', [b.real, b.imag], [rx, ry], rot, False, sw, [a.real, a.imag]]]
        if rng.random() < 0.3:
            # a "D" shape: one arc closed by a line
            specs = [specs[0], ['L', [b.real, b.imag], [a.real, a.imag]]]
        cls += ['shape:arcs']
    return specs, cls


def _crown(rng):
    """outer: a box whose top edge is a zigzag with valley tips at integer height h; inner: a small triangle that
    starts exactly level with the valley tips, to the right of one of them (integer / CAD-style alignment)"""
    n = rng.randint(1, 4)
    H = rng.randint(6, 12)
    h = rng.randint(2, H - 3)
    W = 4 * n
    k = 2.0 ** rng.randint(-2, 3)
    off = complex(rng.randint(-20, 20), rng.randint(-20, 20))
    pts = [0j, complex(W, 0), complex(W, H)]
    for j in range(n):
        pts.append(complex(W - 4 * j - 2, h))
        pts.append(complex(W - 4 * j - 4, H))
    if rng.random() < 0.5:
        pts.reverse()
    pts = [(z + off) * k for z in pts]
    outer = [['L', [a.real, a.imag], [b.real, b.imag]] for a, b in zip(pts, pts[1:] + pts[:1])]
    v = rng.randrange(n)
    x0 = 4 * v + 2 + rng.choice([1, 0.75, 1.25])
    tri = [complex(x0, h), complex(x0 + 0.3, h + 0.2), complex(x0 + 0.1, h - 0.3)]
    if rng.random() < 0.3:
        tri = [z + complex(0, rng.choice([H, -H - 3])) for z in tri]      # the same, but outside the box
    tri = [(z + off) * k for z in tri]
    inner = [['L', [a.real, a.imag], [b.real, b.imag]] for a, b in zip(tri, tri[1:] + tri[:1])]
    return outer, inner, max(W, H) * k, (complex(W / 2.0, H / 2.0) + off) * k


def _slit_box(rng):
    """a box with a thin slit cut in from one side, drawn far from the origin (map / plotter coordinates): the probe of
    a point behind the slit crosses both slit walls within a small fraction of the coordinates' magnitude"""
    S = 20.0
    w = rng.uniform(0.2, 1.0)
    c = rng.uniform(6, 14)
    d = rng.uniform(2, 8)
    pts = [0j, complex(S, 0), complex(S, S), complex(c + w / 2, S), complex(c + w / 2, d), complex(c - w / 2, d),
           complex(c - w / 2, S), complex(0, S)]
    if rng.random() < 0.5:
        pts.reverse()
    rot = complex(math.cos(th), math.sin(th)) if (th := rng.choice([0.0, 0.0, rng.uniform(0, 6.28)])) else 1.0
    k = 2.0 ** rng.randint(-1, 2)
    mag = 10.0 ** rng.uniform(4, 6) * S * k / 20.0
    ang = rng.uniform(0, 6.28)
    off = complex(round(mag * math.cos(ang)), round(mag * math.sin(ang)))

    def place(z):
        return z * rot * k + off
    outer = [['L', [place(a).real, place(a).imag], [place(b).real, place(b).imag]] for a, b in zip(pts, pts[1:] + pts[:1])]
    y = rng.uniform(d + 1, S - 1)
    u = rng.uniform(0.3, 3)
    q = [complex(c + w / 2 + u, y), complex(c - w / 2 - u, y), complex(c, y), complex(c + w / 2 + u, d - rng.uniform(0.3, 1.5))]
    outs = [complex(-2 * S, y + rng.uniform(-0.04, 0.04) * S), complex(3 * S, y + rng.uniform(-0.04, 0.04) * S)]
    x0 = c + w / 2 + rng.uniform(0.5, 3)
    tri = [complex(x0, y), complex(x0 + 0.5, y + 0.3), complex(x0 + 0.2, y - 0.4)]
    r = rng.random()
    if r < 0.25:
        tri = [complex(c - 0.2 * w, y), complex(c + 0.2 * w, y + 0.1), complex(c, y - 0.1)]      # inside the slit: not contained
    elif r < 0.4:
        tri = [z + complex(0, S + 3) for z in tri]                                               # outside the box
    inner = [['L', [place(a).real, place(a).imag], [place(b).real, place(b).imag]] for a, b in zip(tri, tri[1:] + tri[:1])]
    return outer, inner, [[place(z).real, place(z).imag] for z in q], [[place(z).real, place(z).imag] for z in outs]


def cases(ctx):
    rng = ctx.rng
    n = TIERS[ctx.tier]['random'] // ctx.nshards
    for i in range(n // 12):
        outer, inner, pts, outs = _slit_box(rng)
        yield {'kind': 'closed', 'segs': outer, 'other': inner, 'rel': 'nested-slit', 'pts': pts, 'outs': outs, 'grid': False,
               'far': True, 'tf': {'z': [3.0, -7.0], 'sx': 2.0, 'sy': -0.5}, 'cls': ['shape:polygon', 'rel:nested-slit', 'far-thin-slit']}
    for i in range(n // 12):
        outer, inner, scale, centre = _crown(rng)
        pts = [[centre.real + scale * rng.uniform(-0.7, 0.7), centre.imag + scale * rng.uniform(-0.7, 0.7)] for _ in range(2)]
        outs = [[centre.real - 3 * scale, centre.imag + scale * rng.uniform(-3, 3)]]
        yield {'kind': 'closed', 'segs': outer, 'other': inner, 'rel': 'nested-aligned', 'pts': pts, 'outs': outs, 'grid': True,
               'tf': {'z': [3.0, -7.0], 'sx': 2.0, 'sy': -0.5}, 'cls': ['shape:polygon', 'rel:nested-aligned']}
    for i in range(n):
        scale = 10.0 ** rng.uniform(-0.5, 2.5)
        centre = gen.scaled_point(rng, scale)
        specs, cls = _closed_specs(rng, scale, centre)
        if specs is None:
            continue
        # second path for is_contained_by: nested / disjoint / crossing
        rel = rng.choice(['nested', 'disjoint', 'crossing'])
        if rel == 'nested':
            s2, c2 = _closed_specs(rng, scale * rng.uniform(0.05, 0.3), centre + gen.scaled_point(rng, scale * 0.2))
        elif rel == 'disjoint':
            s2, c2 = _closed_specs(rng, scale * rng.uniform(0.1, 0.5), centre + 3 * scale * complex(math.cos(i), math.sin(i)))
        else:
            s2, c2 = _closed_specs(rng, scale * rng.uniform(0.4, 0.9), centre + gen.scaled_point(rng, scale * 0.9))
        pts = [[centre.real + 1.5 * scale * rng.uniform(-1, 1), centre.imag + 1.5 * scale * rng.uniform(-1, 1)]
               for _ in range(4)]
        outs = [[centre.real + scale * rng.choice([-3, 3]) * rng.uniform(1, 2), centre.imag + scale * rng.uniform(-3, 3)]
                for _ in range(2)]
        grid = False
        if rng.random() < 0.45 and 'shape:arcs' not in cls and s2 and not any(sp[0] == 'A' for sp in s2):
            # grid-aligned (integer) coordinates, as CAD-style and hand-written files have: vertices of the outer path
            # level with the inner path's start are the rule there, not the exception
            unit = scale / 8.0

            def snap(sp):
                return [sp[0]] + [[round(v[0] / unit) * unit, round(v[1] / unit) * unit] for v in sp[1:]]
            g1, g2 = [snap(sp) for sp in specs], [snap(sp) for sp in s2]
            def key(sp):
                return (sp[0], tuple(map(tuple, sp[1:])))

            def rkey(sp):
                return (sp[0], tuple(map(tuple, sp[:0:-1])))
            shared = {key(sp) for sp in g1} & ({key(sp) for sp in g2} | {rkey(sp) for sp in g2})
            # (two paths that share a whole segment are outside intersect's documented scope: it asserts)
            if all(sp[1] != sp[-1] for sp in g1 + g2) and not shared:
                specs, s2, grid = g1, g2, True
                pts = [[round(z[0] / unit) * unit + rng.choice([0, 0.5]) * unit, round(z[1] / unit) * unit] for z in pts]
        yield {'kind': 'closed', 'segs': specs, 'other': s2, 'rel': rel, 'pts': pts, 'outs': outs, 'grid': grid,
               'tf': {'z': [rng.uniform(-50, 50), rng.uniform(-50, 50)], 'sx': rng.choice([2.0, -1.5, 0.5]),
                      'sy': rng.choice([3.0, -0.5, 1.0])},
               'cls': cls + ['rel:' + rel]}


def run_case(ctx, case):
    import svgpathtools.path as P
    p = gen.path(case['segs'])
    for c in case['cls']:
        if c.startswith('shape:'):
            ctx.branch(c)
    if case.get('grid'):
        ctx.branch('coords:grid-aligned')
    if case.get('far'):
        ctx.branch('coords:far-from-origin-thin-slit')
    has_arcs = any(type(s).__name__ == 'Arc' for s in p)
    size = max(I.diag(s) for s in p)
    if has_arcs:
        L = p.length()
        ch = max(L / 1500.0, 1e-4)
        a0 = p.area(chord_length=ch)
    else:
        a0 = p.area()
    # metamorphic relations (library values against library values; each call is also judged by the oracle)
    ctx.branch('relation:reversed')
    kw = {'chord_length': ch} if has_arcs else {}
    ar = p.reversed().area(**kw)
    at = p.translated(complex(*case['tf']['z'])).area(**kw)
    ctx.verdict()
    mag = max(abs(z) for sg in p for z in (sg.start, sg.end))
    rnd = 64 * EPS * len(p) * (size + mag) ** 2          # rounding of the products of coordinates (same term as post_area)
    tol = 1e-9 * size * size + rnd + (abs(a0) * 1e-3 if has_arcs else 0)
    if not (abs(ar + a0) <= tol):
        ctx.violation('relation/reversed', 'area does not change sign under reversed()', {'a': float(a0), 'reversed': float(ar)})
    if not (abs(at - a0) <= tol + 1e-9 * abs(complex(*case['tf']['z'])) * size):
        ctx.violation('relation/translated', 'area changes under translation', {'a': float(a0), 'translated': float(at)})
    if not has_arcs:
        sx, sy = case['tf']['sx'], case['tf']['sy']
        asx = p.scaled(sx, sy).area()
        ctx.verdict()
        if not (abs(asx - sx * sy * a0) <= 1e-9 * size * size * abs(sx * sy) + 2 * rnd * max(abs(sx), abs(sy)) ** 2 + 1e-12):
            ctx.violation('relation/scaled', 'area does not scale by the determinant', {'a': float(a0), 'scaled': float(asx),
                                                                                        'det': sx * sy})
    xs = [b for sg in p for b in (sg.bbox() if type(sg).__name__ == 'Arc' else
                                  (lambda q: (min(z.real for z in q), max(z.real for z in q),
                                              min(z.imag for z in q), max(z.imag for z in q)))(sg.bpoints()))]
    far_y = max(xs[3::4]) + size
    far_x = min(xs[0::4]) - size
    for z in case['pts']:
        # general probes, and the exactly vertical / exactly horizontal ones users write by hand
        for o in case['outs'] + [[z[0], far_y], [far_x, z[1]]]:
            if o[0] == z[0] or o[1] == z[1]:
                ctx.branch('probe:axis-parallel')
            try:
                P.path_encloses_pt(complex(*z), complex(*o), p)
            except AssertionError:
                pass
    if case['other']:
        q = gen.path(case['other'])
        if q != p:
            try:
                q.is_contained_by(p)
            except Exception as e:   # noqa
                if isinstance(e, AssertionError) and any(a == b or a == b.reversed() for a in p for b in q):
                    # two paths sharing a whole segment: outside intersect's documented scope ("will fail if the two
                    # segments coincide for more than a finite collection of points")
                    ctx.note('is_contained_by_asserted_on_shared_segment')
                elif any(type(s).__name__ == 'Arc' for s in list(p) + list(q)):
                    ctx.note('is_contained_by_raised_with_arcs:%s' % type(e).__name__)
                else:
                    raise


def crash_key(ctx, case, e, site):
    return 'crash/%s@%s/%s' % (type(e).__name__, site, case['cls'][0])


REGISTER = True
TECHNIQUE = 'runtime monitors on Path.area/path_encloses_pt/is_contained_by; exact rational Green integral (closed-form sector integral for arcs), winding-number parity as probe-independent enclosure reference, independently decided probe precondition; metamorphic relations driven'
LEVEL_TEXT = ('Every area() call of the workload is compared with the exact Green integral of x dy (Bezier/line segments exactly over the rationals, arcs '
              'by the closed-form sector integral within the chord-approximation bound), including sign conventions, reversal, translation and scaling '
              'by the determinant; every path_encloses_pt call whose probe is in general position (decided by an independent sweep) must equal the '
              'parity of the winding number; is_contained_by must equal "no crossing and start enclosed".')
LEVEL_NOTE = 'Trusts vt/ref/exact.py and the sampled winding number / sweeps (2048 samples per segment); probes not in general position are skipped and counted.'
