"""C08 - bbox() contains the curve and every side of it is touched by the curve.

Monitors: bbox of Line/QuadraticBezier/CubicBezier/Arc/Path, bezier_bounding_box,
          bezier_real_minmax (the latter two fire ~1e5 times inside intersection
          workloads on sub-curves of every shape).
Oracle  : independent extrema (exact Sturm isolation of the derivative's roots and
          exact Bernstein evaluation for Beziers; critical eccentric angles for arcs)
          + dense sampling containment.
"""
import math
from fractions import Fraction as F

import numpy as np

from .. import core, gen, monitor
from ..ref import exact as X

PROP = 'C08'
CONFIGS = ['scipy']
DECIDING = ['Line.bbox', 'QuadraticBezier.bbox', 'CubicBezier.bbox', 'Arc.bbox', 'Path.bbox',
            'bezier.bezier_bounding_box', 'bezier.bezier_real_minmax']
ANCHORED = ['bezier_real_minmax', 'bezier_bounding_box', 'Line.bbox', 'Arc.bbox', 'Path.bbox']
RULE = ('cases = one segment or path (cubics: generic / monotone / S-shaped / exactly degree-degenerate / inexactly '
        'degree-elevated quadratics and lines / coordinate-constant; quadratics; arcs over flags x rotation x eccentricity; '
        'paths; sub-curves produced inside intersection calls); every bbox() result is compared with independently computed '
        'extrema and 1025 samples; distinct by spec; non-trivial if an oracle verdict was reached')
ASSUMPTIONS = ['vt/ref/exact.py (Sturm isolation, exact Bernstein evaluation) is right',
               'for arcs the curve is the arc\'s own point(t); its stored centre/theta/delta are C04\'s subject']
TIERS = {
    'quick': {'shards': 14, 'random': 16000, 'timeout': 600, 'min_cases': 10000,
              'require_branches': ['cubic:degree-degenerate-inexact', 'cubic:degree-degenerate-exact', 'arc:extremes>=1',
                                   'arc:extremes=0', 'internal:intersection-subcurves', 'cubic:two-extrema']},
    'thorough': {'shards': 14, 'random': 600000, 'timeout': 3000, 'min_cases': 300000,
                 'require_branches': ['cubic:degree-degenerate-inexact', 'cubic:degree-degenerate-exact',
                                      'arc:extremes>=1', 'arc:extremes=0', 'internal:intersection-subcurves',
                                      'cubic:two-extrema']},
}
EPS = gen.EPS
TT = np.linspace(0, 1, 1025)


def real_extrema(a):
    """exact-based (min, max, #interior critical points) of the real Bezier with control values a (floats)"""
    fa = [F(float(x)) for x in a]
    cands = [fa[0], fa[-1]]
    ncrit = 0
    d = X.diff_ctrl(fa) if len(fa) > 1 else [F(0)]
    pc = X.ptrim(X.power_coeffs_real(d)) if len(d) > 0 else [F(0)]
    if len(pc) > 1:
        ivs, _ = X.int_real_roots(pc, width_bits=44)
        for lo, hi, mult in ivs:
            mid = (lo + hi) / 2
            if 0 < mid < 1:
                ncrit += 1
                cands.append(X.bez_real(fa, mid))
    return float(min(cands)), float(max(cands)), ncrit


def bez_samples(bps):
    """dense samples of the Bezier curve (vectorised de Casteljau, float)"""
    pts = [np.full(TT.shape, complex(p)) for p in bps]
    while len(pts) > 1:
        pts = [(1 - TT) * pts[i] + TT * pts[i + 1] for i in range(len(pts) - 1)]
    return pts[0]


def _cmp_box(ctx, key, got, want, size, samples, detail=None, mag=0.0):
    tol = 1e-9 * size + 16 * EPS * mag + 1e-300     # 'up to rounding' of the coordinates themselves
    ctx.verdict()
    names = ('xmin', 'xmax', 'ymin', 'ymax')
    try:
        got = [float(g) for g in got]
    except (TypeError, ValueError):
        ctx.violation(key + '/not-numbers', 'bbox() did not return four real numbers', {'got': repr(got)})
        return
    for nm, g, w in zip(names, got, want):
        if not (abs(g - w) <= tol):
            side = 'too-small' if ((nm.endswith('min') and g > w) or (nm.endswith('max') and g < w)) else 'too-large'
            ctx.violation('%s/%s' % (key, side),
                          'bbox %s = %r but the curve\'s true extreme is %r' % (nm, g, w),
                          dict(detail or {}, got=got, want=list(want), tol=tol))
            return
    if samples is not None:
        out = max(got[0] - samples.real.min(), samples.real.max() - got[1],
                  got[2] - samples.imag.min(), samples.imag.max() - got[3])
        if out > tol:
            ctx.violation(key + '/sample-outside', 'a sampled curve point lies outside bbox() by %.3g' % out,
                          dict(detail or {}, got=got))


def _bez_box(bps):
    xs = real_extrema([complex(p).real for p in bps])
    ys = real_extrema([complex(p).imag for p in bps])
    return (xs[0], xs[1], ys[0], ys[1]), max(xs[2], ys[2])


def _classify_cubic(bps):
    tags = []
    for part in ('real', 'imag'):
        a = [getattr(complex(p), part) for p in bps]
        lead_exact = F(a[0]) - 3 * F(a[1]) + 3 * F(a[2]) - F(a[3])
        lead_float = a[0] - 3 * a[1] + 3 * a[2] - a[3]
        scale = sum(abs(x) for x in a) or 1.0
        if lead_exact == 0 and lead_float == 0:
            tags.append('degree-degenerate-exact')
        elif abs(lead_float) <= 64 * EPS * scale:
            tags.append('degree-degenerate-inexact')
    return tags


def post_seg_bbox(call):
    ctx = core.CTX
    seg = call.args[0]
    n = type(seg).__name__
    if n == 'Line':
        bps = [seg.start, seg.end]
    elif n == 'QuadraticBezier':
        bps = [seg.start, seg.control, seg.end]
    else:
        bps = [seg.start, seg.control1, seg.control2, seg.end]
    try:
        bps = [complex(p) for p in bps]
    except TypeError:
        return False
    _judge_bez(ctx, n, bps, call.ret)
    return True


def _judge_bez(ctx, name, bps, ret):
    if not all(math.isfinite(p.real) and math.isfinite(p.imag) for p in bps):
        return
    size = max(abs(p - bps[0]) for p in bps) or max(abs(bps[0]), 1e-300)
    size = max(size, 4 * EPS * max(abs(p) for p in bps))
    want, ncrit = _bez_box(bps)
    tags = _classify_cubic(bps) if len(bps) == 4 else []
    for t in tags:
        ctx.branch('cubic:' + t)
    if len(bps) == 4 and ncrit >= 2:
        ctx.branch('cubic:two-extrema')
    key = '%s%s' % (name, '/' + tags[0] if tags else '')
    _cmp_box(ctx, key, ret, want, size, bez_samples(bps), {'bpoints': [repr(p) for p in bps], 'size': size},
             mag=max(abs(p) for p in bps))


def post_bbb(call):
    ctx = core.CTX
    bez = call.a.get('bez')
    if hasattr(bez, 'large_arc'):
        return False
    try:
        bps = [complex(p) for p in bez]
    except TypeError:
        return False
    if not 2 <= len(bps) <= 9:
        return False
    if (ctx.current or {}).get('kind') == 'intersect':
        ctx.branch('internal:intersection-subcurves')
    _judge_bez(ctx, 'bezier_bounding_box/deg%d' % (len(bps) - 1), bps, call.ret)
    return True


def post_minmax(call):
    ctx = core.CTX
    p = call.a.get('p')
    try:
        a = [float(x) for x in p]
    except (TypeError, ValueError):
        return False
    if len(a) != 4 or not all(math.isfinite(x) for x in a):
        return False
    lo, hi, ncrit = real_extrema(a)
    size = (max(a) - min(a)) or max(abs(a[0]), 1e-300)
    size = max(size, 4 * EPS * max(abs(x) for x in a))
    tol = 1e-9 * size + 16 * EPS * max(abs(x) for x in a)
    ctx.verdict()
    glo, ghi = call.ret
    if not (abs(glo - lo) <= tol and abs(ghi - hi) <= tol):
        lead = a[0] - 3 * a[1] + 3 * a[2] - a[3]
        tag = 'degree-degenerate' if abs(lead) <= 64 * EPS * sum(abs(x) for x in a) else 'generic'
        ctx.violation('bezier_real_minmax/%s' % tag, 'min/max of the real cubic differ from the true extremes',
                      {'a': [repr(x) for x in a], 'got': [float(glo), float(ghi)], 'want': [lo, hi]})
    return True


def post_arc_bbox(call):
    ctx = core.CTX
    a = call.args[0]
    rx, ry = a.radius.real, a.radius.imag
    phi = math.radians(a.rotation)
    theta, delta = float(a.theta), float(a.delta)
    if delta == 0:
        return False
    cands_x = [a.start.real, a.end.real]
    cands_y = [a.start.imag, a.end.imag]
    ax = math.atan2(-ry * math.sin(phi), rx * math.cos(phi))
    ay = math.atan2(ry * math.cos(phi), rx * math.sin(phi))
    nx = 0
    for base, store in ((ax, cands_x), (ay, cands_y)):
        for k in range(-8, 9):
            t = (math.degrees(base + k * math.pi) - theta) / delta
            if 0 < t < 1:
                z = complex(a.point(t))
                store.append(z.real if store is cands_x else z.imag)
                nx += 1
    ctx.branch('arc:extremes>=1' if nx else 'arc:extremes=0')
    ctx.branch('arc:extremes=%d' % min(nx, 4))
    want = (min(cands_x), max(cands_x), min(cands_y), max(cands_y))
    size = max(rx, ry, abs(a.end - a.start))
    samples = np.asarray(a.point(TT))
    # point(0)/point(1) reproduce start/end only to the accuracy C04 grants (acos conditioning);
    # that mismatch is not the box's doing
    slack = abs(complex(a.point(0)) - a.start) + abs(complex(a.point(1)) - a.end)
    _cmp_box(ctx, 'Arc', call.ret, want, size + slack * 1e9, samples,
             {'arc': gen.seg_spec(a)}, mag=max(abs(a.start), abs(a.end), abs(a.center)))
    return True


def post_path_bbox(call):
    ctx = core.CTX
    p = call.args[0]
    if len(p) == 0:
        return False
    boxes = [s.bbox() for s in p]
    want = (min(b[0] for b in boxes), max(b[1] for b in boxes), min(b[2] for b in boxes), max(b[3] for b in boxes))
    ctx.verdict()
    if tuple(call.ret) != want:
        ctx.violation('Path/union', 'Path.bbox() is not the union of its segments\' boxes',
                      {'got': [float(x) for x in call.ret], 'want': [float(x) for x in want]})
    return True


def install(ctx):
    import svgpathtools.path as P
    import svgpathtools.bezier as B
    for cls in (P.Line, P.QuadraticBezier, P.CubicBezier):
        monitor.install(cls, 'bbox', post=post_seg_bbox)
    monitor.install(P.Arc, 'bbox', post=post_arc_bbox)
    monitor.install(P.Path, 'bbox', post=post_path_bbox)
    monitor.install(B, 'bezier_bounding_box', post=post_bbb, budget=1500)
    monitor.install(B, 'bezier_real_minmax', post=post_minmax, budget=1500)


# --------------------------------------------------------------------------
def _cubic(rng, cls):
    scale = 10.0 ** rng.uniform(-2, 4)

    def p():
        return complex(rng.uniform(-scale, scale), rng.uniform(-scale, scale))
    if cls == 'generic':
        return [p(), p(), p(), p()]
    if cls == 'monotone':
        a, d = p(), p()
        ts = sorted(rng.uniform(0, 1) for _ in range(4))
        return [a + d * t + 0.01 * p() for t in ts]
    if cls == 's-shaped':
        a = p()
        return [a, a + complex(scale, scale), a + complex(-scale, 2 * scale) * rng.uniform(.5, 2), a + complex(0, 3 * scale)]
    if cls == 'elevated-quad-int':
        q = [complex(3 * rng.randint(-20, 20), 3 * rng.randint(-20, 20)) for _ in range(3)]
        return [q[0], q[0] + 2 * (q[1] - q[0]) / 3, q[2] + 2 * (q[1] - q[2]) / 3, q[2]]
    if cls == 'elevated-quad':
        q = [p(), p(), p()]
        return [q[0], q[0] + 2 / 3 * (q[1] - q[0]), q[2] + 2 / 3 * (q[1] - q[2]), q[2]]
    if cls == 'elevated-line':
        a, b = p(), p()
        if rng.random() < 0.5:
            a, b = complex(3 * rng.randint(-9, 9), 3 * rng.randint(-9, 9)), complex(3 * rng.randint(-9, 9), 3 * rng.randint(-9, 9))
        return [a, a + (b - a) / 3, a + 2 * (b - a) / 3, b]
    if cls == 'coord-constant':
        y = rng.uniform(-scale, scale)
        return [complex(rng.uniform(-scale, scale), y) for _ in range(4)]
    if cls == 'one-coord-quadratic':
        q = [rng.uniform(-scale, scale) for _ in range(3)]
        xs = [q[0], q[0] + 2 / 3 * (q[1] - q[0]), q[2] + 2 / 3 * (q[1] - q[2]), q[2]]
        return [complex(x, rng.uniform(-scale, scale)) for x in xs]
    if cls == 'loop':
        a = p()
        return [a, a + complex(2 * scale, scale), a + complex(-scale, scale), a + complex(scale, 0) * rng.uniform(0, 1)]
    raise ValueError(cls)


CUBIC_CLS = ['generic', 'generic', 'monotone', 's-shaped', 'elevated-quad-int', 'elevated-quad', 'elevated-quad',
             'elevated-line', 'coord-constant', 'one-coord-quadratic', 'loop']


def cases(ctx):
    rng = ctx.rng
    n = TIERS[ctx.tier]['random'] // ctx.nshards
    for i in range(n):
        k = rng.random()
        if k < 0.45:
            cls = rng.choice(CUBIC_CLS)
            pts = _cubic(rng, cls)
            yield {'kind': 'seg', 'seg': ['C'] + [[z.real, z.imag] for z in pts], 'cls': ['cubic', 'cubic:' + cls]}
        elif k < 0.55:
            cc = rng.choice(['rand', 'int', 'half', 'huge'])
            s = gen.rand_seg_spec(rng, rng.choice('QQL'), gen.cpoint(rng, cc), cc)
            yield {'kind': 'seg', 'seg': s, 'cls': ['quad-or-line', 'coord:' + cc]}
        elif k < 0.8:
            scale = 10.0 ** rng.uniform(-2, 4)
            s, e = gen.scaled_point(rng, scale), gen.scaled_point(rng, scale)
            if s == e:
                continue
            ecc = rng.choice([1.0, 1.0, 2.0, 10.0, 1e3])
            r = abs(e - s) * rng.uniform(0.3, 3)
            rot = rng.choice([0, 90, 180, 270, -90, 45, 33.3, rng.uniform(-400, 400)])
            spec = ['A', [s.real, s.imag], [r, r * ecc], rot, rng.random() < 0.5, rng.random() < 0.5, [e.real, e.imag]]
            yield {'kind': 'seg', 'seg': spec, 'cls': ['arc', 'ecc:%g' % ecc]}
        elif k < 0.97:
            kinds = [rng.choice('LQCA') for _ in range(rng.randint(1, 6))]
            specs = gen.rand_path_specs(rng, kinds, rng.choice(['rand', 'int']))
            if any(s[0] == 'A' and s[1] == s[6] for s in specs):
                continue
            yield {'kind': 'path', 'segs': specs, 'cls': ['path']}
        else:
            a = _cubic(rng, rng.choice(['generic', 's-shaped', 'loop', 'monotone', 'elevated-quad']))
            b = _cubic(rng, 'generic')
            sh = a[0] - b[0] + (a[3] - a[0]) * 0.3
            b = [z + sh for z in b]
            yield {'kind': 'intersect', 'a': ['C'] + [[z.real, z.imag] for z in a],
                   'b': ['C'] + [[z.real, z.imag] for z in b], 'cls': ['intersect-subcurves']}


def run_case(ctx, case):
    import svgpathtools.bezier as B
    if case['kind'] == 'seg':
        s = gen.seg(case['seg'])
        s.bbox()
        if case['seg'][0] != 'A':
            B.bezier_bounding_box(s)
    elif case['kind'] == 'path':
        gen.path(case['segs']).bbox()
    else:
        a, b = gen.seg(case['a']), gen.seg(case['b'])
        if a == b:
            raise core.Skip('equal segments')
        try:
            with core.case_watchdog(2):
                a.intersect(b)
        except core.VTTimeout:
            ctx.note('intersect_abandoned_after_2s_in_bbox_workload')
        except Exception:     # completeness/termination of intersect is C11/C12's subject
            ctx.note('intersect_raised_in_bbox_workload')


def crash_key(ctx, case, e, site):
    return 'crash/%s@%s/%s' % (type(e).__name__, site, case['kind'])


REGISTER = True
TECHNIQUE = 'runtime monitors on every bbox()/bezier_bounding_box/bezier_real_minmax call with independently computed exact extrema (Sturm isolation + exact Bernstein evaluation; critical angles for arcs) and dense sampling'
LEVEL_TEXT = ('Every bounding box computed during the workload (including those of the sub-curves generated inside bezier_intersections) is '
              'compared side by side with the true extremes of the curve, obtained from the exact real roots of the coordinate derivative, and '
              'cross-checked against 1025 samples; containment and tightness follow from agreement within 1e-9 of the curve size.')
LEVEL_NOTE = 'Trusts vt/ref/exact.py; for arcs the curve is the library\'s own point(t) (its parameterisation is checked by C04).'
