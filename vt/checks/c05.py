"""C05 - Path parameter T, segment parameter t and arc-length fractions are coherent.

Monitors: Path.point, Path.T2t, Path.t2T (post-condition + exception observer),
          iscontinuous, isclosed, continuous_subpaths, start/end getters.
Oracle  : own cumulative fractions from each segment's length(); topology recomputed
          from the end points.
"""
import math

import numpy as np

from .. import core, gen, monitor

PROP = 'C05'
CONFIGS = ['scipy']
DECIDING = ['Path.point', 'Path.T2t', 'Path.t2T', 'Path.iscontinuous', 'Path.isclosed',
            'Path.continuous_subpaths', 'Path.start', 'Path.end']
ANCHORED = ['Path._calc_lengths', 'Path.point', 'Path.T2t', 'Path.t2T', 'Path.iscontinuous',
            'Path.continuous_subpaths', 'Path.isclosed']
RULE = ('cases = one path of 1..8 segments (all type mixes; length ratios up to 1e12; zero-length segments in non-leading '
        'positions; continuous, closed or broken into subpaths) queried at T in {0, 1, every cumulative boundary, boundary +- 1 '
        'ulp, nextafter(1,0), nextafter(0,1), random} plus t2T at (k, t) grids and the topology queries; distinct by path spec; '
        'non-trivial if an oracle verdict was reached')
RULE += '; discontinuous paths with T on the joints, joints that miss by 1e-9..1e-6, and paths derived (reversed/translated/rotated/scaled) from a path that has already answered queries; T2t must return t in [0,1] exactly'
ASSUMPTIONS = ['segment.length() is the arc length (C06\'s subject); the oracle recomputes the fractions from it',
               'for arcs point(0)/point(1) reproduce start/end to the accuracy granted by C04']
TIERS = {
    'quick': {'shards': 14, 'random': 9000, 'timeout': 600, 'min_cases': 6000,
              'require_branches': ['T:nextafter(1,0)', 'T:boundary', 'T:boundary+-ulp', 'path:zero-length-segment',
                                   'path:ratio>=1e9', 'topo:several-subpaths', 'path:near-miss-joints', 'path:derived-after-queries']},
    'thorough': {'shards': 14, 'random': 400000, 'timeout': 3000, 'min_cases': 200000,
                 'require_branches': ['T:nextafter(1,0)', 'T:boundary', 'T:boundary+-ulp', 'path:zero-length-segment',
                                      'path:ratio>=1e9', 'topo:several-subpaths']},
}
EPS = gen.EPS


def _model(p):
    """cumulative fractions recomputed by the oracle (cached per path object)"""
    m = p.__dict__.get('_vt_c05')
    segs = tuple(id(s) for s in p)
    if m is not None and m['segs'] == segs:
        return m
    lens = [float(s.length()) for s in p]
    L = sum(lens)
    if not (L > 0) or not math.isfinite(L):
        return None
    fr = [x / L for x in lens]
    cum = [0.0]
    for f in fr:
        cum.append(cum[-1] + f)
    ctrl = []
    for s in p:
        if type(s).__name__ == 'Arc':
            ctrl.append(abs(math.radians(s.delta)) * max(s.radius.real, s.radius.imag))
        else:
            pts = gen.spec_points(gen.seg_spec(s))
            ctrl.append(sum(abs(b - a) for a, b in zip(pts, pts[1:])) * (len(pts) - 1))
    mag = max(abs(z) for s in p for z in gen.spec_points(gen.seg_spec(s)))
    m = {'segs': segs, 'lens': lens, 'L': L, 'fr': fr, 'cum': cum, 'ctrl': ctrl, 'mag': mag}
    p.__dict__['_vt_c05'] = m
    return m


def _isnum(x):
    return isinstance(x, (int, float, np.floating, np.integer)) and not isinstance(x, bool)


def _Tclass(m, T):
    if T >= 1 - 1e-9:
        return 'near-1'
    if T <= 1e-9:
        return 'near-0'
    if any(abs(T - c) <= 8 * EPS for c in m['cum'][1:-1]):
        return 'at-boundary'
    return 'interior'


def post_T2t(call):
    ctx = core.CTX
    p, T = call.args[0], call.a.get('T')
    if not _isnum(T) or not 0 <= T <= 1 or len(p) == 0:
        return False
    m = _model(p)
    if m is None:
        ctx.skip('path of zero or non-finite length')
        return False
    ctx.verdict()
    try:
        k, t = call.ret
        k = int(k)
        t = float(t)
    except Exception:
        ctx.violation('T2t/shape', 'T2t did not return (index, t)', {'ret': repr(call.ret)})
        return True
    cls = _Tclass(m, T)
    if not 0 <= k < len(p):
        ctx.violation('T2t/index-range/' + cls, 'T2t returned segment index %r' % k, {'T': T})
        return True
    lo, hi = m['cum'][k], m['cum'][k + 1]
    if not (lo - 8 * EPS <= T <= hi + 8 * EPS):
        ctx.violation('T2t/wrong-segment/' + cls, 'T does not lie in the T-interval of the returned segment',
                      {'T': T, 'k': k, 'interval': [lo, hi]})
        return True
    if m['fr'][k] == 0:
        # a zero-length segment owns the single value T = lo = hi; any t describes the same point
        if not (0 <= t <= 1):
            ctx.violation('T2t/t-range/' + cls, 't outside [0,1]', {'T': T, 'k': k, 't': t})
        return True
    # a segment parameter is a number in [0, 1], exactly: 1 + 2e-16 is not one (Arc.length, Arc.point_to_t and
    # cropped assert on it), however close it is
    if not (0 <= t <= 1) or not math.isfinite(t):
        ctx.violation('T2t/t-range/' + cls, 't outside [0,1]', {'T': T, 'k': k, 't': repr(t), 'path': gen.path_spec(p)})
        return True
    want = min(1.0, max(0.0, (T - lo) / m['fr'][k]))
    if not (abs(t - want) <= 16 * EPS / m['fr'][k] + 16 * EPS):
        ctx.violation('T2t/t-value/' + cls, 't is not (T - start of interval)/fraction',
                      {'T': T, 'k': k, 't': t, 'want': want, 'fraction': m['fr'][k]})
    return True


def exc_query(name):
    def on_exc(call):
        ctx = core.CTX
        p = call.args[0]
        T = call.a.get('T', call.a.get('pos'))
        if not _isnum(T) or not 0 <= T <= 1 or len(p) == 0:
            return False
        m = _model(p)
        if m is None:
            return False
        ctx.verdict()
        ctx.violation('%s/raises/%s' % (name, _Tclass(m, T)),
                      '%s(T) raised %s for a T in [0,1]' % (name, type(call.exc).__name__),
                      {'T': repr(T), 'sum_of_fractions': m['cum'][-1], 'exc': str(call.exc)[:80]})
        return True
    return on_exc


def post_point(call):
    ctx = core.CTX
    p, T = call.args[0], call.a.get('pos')
    if not _isnum(T) or not 0 <= T <= 1 or len(p) == 0:
        return False
    m = _model(p)
    if m is None:
        return False
    z = complex(call.ret)
    ctx.verdict()
    cls = _Tclass(m, T)
    arc_slack = 0.0
    # the segment(s) whose T-interval contains T
    best = None
    for k in range(len(p)):
        lo, hi = m['cum'][k], m['cum'][k + 1]
        if m['fr'][k] == 0 or not (lo - 8 * EPS <= T <= hi + 8 * EPS):
            continue
        t = min(1.0, max(0.0, (T - lo) / m['fr'][k]))
        w = complex(p[k].point(t))
        tol = 16 * EPS / m['fr'][k] * m['ctrl'][k] + 64 * EPS * m['mag']
        if type(p[k]).__name__ == 'Arc':
            tol += 1e-9 * max(p[k].radius.real, p[k].radius.imag)
        d = abs(z - w)
        if best is None or d - tol < best[0]:
            best = (d - tol, k, t, w, tol)
    if best is None:
        ctx.violation('point/no-segment/' + cls, 'no segment owns this T (oracle)', {'T': T})
        return True
    if best[0] > 0:
        ctx.violation('point/wrong-point/' + cls, 'point(T) is not the point of the owning segment at (T - start)/fraction',
                      {'T': T, 'got': repr(z), 'want': repr(best[3]), 'k': best[1], 't': best[2], 'tol': best[4]})
    if T == 0:
        s0 = complex(p[0].start)
        tol0 = 1e-6 * max(p[0].radius.real, p[0].radius.imag) if type(p[0]).__name__ == 'Arc' else 0.0
        if not (abs(z - s0) <= tol0):
            ctx.violation('point/T=0', 'point(0) is not the path\'s start', {'got': repr(z), 'want': repr(s0)})
    if T == 1:
        e1 = complex(p[-1].end)
        tol1 = 1e-6 * max(p[-1].radius.real, p[-1].radius.imag) if type(p[-1]).__name__ == 'Arc' \
            else 64 * EPS * m['mag']
        if not (abs(z - e1) <= tol1):
            ctx.violation('point/T=1', 'point(1) is not the path\'s end', {'got': repr(z), 'want': repr(e1)})
    return True


def post_t2T(call):
    ctx = core.CTX
    p, seg, t = call.args[0], call.a.get('seg'), call.a.get('t')
    if not _isnum(t) or len(p) == 0:
        return False
    m = _model(p)
    if m is None:
        return False
    if isinstance(seg, (int, np.integer)):
        ks = [int(seg) % len(p)]
    else:
        ks = [i for i, s in enumerate(p) if s is seg] or [i for i, s in enumerate(p) if s == seg]
        if not ks:
            return False
    ctx.verdict()
    T = float(call.ret)
    for k in ks:
        want = m['cum'][k] + t * m['fr'][k]
        if abs(T - want) <= 16 * EPS:
            return True
    ctx.violation('t2T/value', 't2T(k, t) is not start-of-interval + t*fraction',
                  {'k': ks, 't': float(t), 'got': T, 'want': m['cum'][ks[0]] + t * m['fr'][ks[0]]})
    return True


def post_iscontinuous(call):
    ctx = core.CTX
    p = call.args[0]
    want = all(p[i].end == p[i + 1].start for i in range(len(p) - 1))
    ctx.verdict()
    if bool(call.ret) != want:
        ctx.violation('iscontinuous', 'iscontinuous() != coincidence of consecutive end points', {'got': bool(call.ret)})
    return True


def post_isclosed(call):
    ctx = core.CTX
    p = call.args[0]
    want = p[0].start == p[-1].end
    ctx.verdict()
    if bool(call.ret) != bool(want):
        ctx.violation('isclosed', 'isclosed() != (start == end)', {'got': bool(call.ret)})
    return True


def post_subpaths(call):
    ctx = core.CTX
    p = call.args[0]
    subs = call.ret
    ctx.verdict()
    flat = [s for sp in subs for s in sp]
    if len(flat) != len(p) or any(a is not b for a, b in zip(flat, p)):
        ctx.violation('continuous_subpaths/concat', 'sub-paths do not concatenate back to the original path',
                      {'sizes': [len(sp) for sp in subs], 'n': len(p)})
        return True
    for sp in subs:
        if len(sp) == 0 or any(sp[i].end != sp[i + 1].start for i in range(len(sp) - 1)):
            ctx.violation('continuous_subpaths/not-continuous', 'a returned sub-path is empty or not continuous',
                          {'sizes': [len(sp) for sp in subs]})
            return True
    for a, b in zip(subs, subs[1:]):
        if a[-1].end == b[0].start:
            ctx.violation('continuous_subpaths/not-maximal', 'two consecutive sub-paths join: not maximal',
                          {'sizes': [len(sp) for sp in subs]})
            return True
    if len(subs) > 1:
        ctx.branch('topo:several-subpaths')
    return True


def post_start(call):
    ctx = core.CTX
    p = call.args[0]
    if len(p) == 0 or p.__dict__.get('_vt_mutated'):
        return False
    ctx.verdict()
    if not (call.ret == p[0].start):
        ctx.violation('start-getter', 'Path.start is not the first segment\'s start')
    return True


def post_end(call):
    ctx = core.CTX
    p = call.args[0]
    if len(p) == 0 or p.__dict__.get('_vt_mutated'):
        return False
    ctx.verdict()
    if not (call.ret == p[-1].end):
        ctx.violation('end-getter', 'Path.end is not the last segment\'s end')
    return True


def install(ctx):
    import svgpathtools.path as P
    monitor.install(P.Path, 'point', post=post_point, on_exc=exc_query('point'))
    monitor.install(P.Path, 'T2t', post=post_T2t, on_exc=exc_query('T2t'))
    monitor.install(P.Path, 't2T', post=post_t2T)
    monitor.install(P.Path, 'iscontinuous', post=post_iscontinuous)
    monitor.install(P.Path, 'isclosed', post=post_isclosed)
    monitor.install(P.Path, 'continuous_subpaths', post=post_subpaths)
    monitor.install(P.Path, 'start', post=post_start)
    monitor.install(P.Path, 'end', post=post_end)


# --------------------------------------------------------------------------
def cases(ctx):
    rng = ctx.rng
    n = TIERS[ctx.tier]['random'] // ctx.nshards
    for i in range(n):
        nseg = rng.randint(1, 8)
        k = rng.random()
        cls = []
        cc = rng.choice(['rand', 'int', 'half', 'rand'])
        if k < 0.35:
            kinds = [rng.choice('LLQCA') for _ in range(nseg)]
            specs = gen.rand_path_specs(rng, kinds, cc, rng.choice(['open', 'line', 'curve']) if nseg > 1 else 'open')
            cls.append('mixed')
        elif k < 0.55:
            # polylines (the witness family: fractions that sum below 1)
            specs = gen.rand_path_specs(rng, ['L'] * rng.randint(2, 8), rng.choice(['rand', 'third', 'rand']))
            cls.append('polyline')
        elif k < 0.75:
            # very unequal lengths
            kinds = [rng.choice('LLQC') for _ in range(max(2, nseg))]
            specs = gen.rand_path_specs(rng, kinds, 'rand')
            ratio = 10.0 ** rng.uniform(3, 12)
            j = rng.randrange(len(specs))
            p0 = complex(*specs[j][1])
            for q in range(2, len(specs[j])):
                z = p0 + (complex(*specs[j][q]) - p0) / ratio
                specs[j][q] = [z.real, z.imag]
            if j + 1 < len(specs):
                specs[j + 1][1] = specs[j][-1]
            cls.append('unequal')
            if ratio >= 1e9:
                cls.append('ratio>=1e9')
        elif k < 0.88:
            # zero-length segments in non-leading positions
            kinds = [rng.choice('LQC') for _ in range(max(2, nseg))]
            specs = gen.rand_path_specs(rng, kinds, cc)
            j = rng.randrange(1, len(specs))
            z = specs[j][1]
            zero = rng.choice([['L', z, z], ['Q', z, z, z], ['C', z, z, z, z]])
            specs.insert(j, zero)
            cls.append('zero-length-segment')
        else:
            specs = []
            for _ in range(rng.randint(2, 4)):
                kinds = [rng.choice('LQCA') for _ in range(rng.randint(1, 3))]
                specs += gen.rand_path_specs(rng, kinds, cc, rng.choice(['open', 'curve']) if len(kinds) > 1 else 'open')
            cls.append('several-subpaths')
            if rng.random() < 0.5:
                # near-miss joints: a continuous path in which some joints are off by 1 ulp ... 1e-6 of the coordinates
                kinds = [rng.choice('LQC') for _ in range(rng.randint(3, 7))]
                specs = gen.rand_path_specs(rng, kinds, rng.choice(['rand', 'half']), rng.choice(['open', 'line']))
                for j in range(1, len(specs)):
                    if rng.random() < 0.5:
                        z = complex(*specs[j][1])
                        mode = rng.random()
                        if mode < 0.4:
                            z2 = complex(float(np.nextafter(z.real, z.real + 1)), z.imag)
                        else:
                            z2 = z + (abs(z) + 1) * 10.0 ** rng.uniform(-12, -6) * complex(rng.uniform(-1, 1), rng.uniform(-1, 1))
                        if z2 != z:
                            specs[j][1] = [z2.real, z2.imag]
                cls.append('near-miss-joints')
        if any(s[0] == 'A' and s[1] == s[-1] for s in specs):
            continue
        if specs[0][0] == 'L' and specs[0][1] == specs[0][2]:
            continue
        yield {'kind': 'path', 'segs': specs, 'seed': rng.randrange(1 << 30), 'cls': cls}


def run_case(ctx, case):
    import random
    p = gen.path(case['segs'])
    rng = random.Random(case['seed'])
    for c in case['cls']:
        if c == 'zero-length-segment':
            ctx.branch('path:zero-length-segment')
        if c == 'ratio>=1e9':
            ctx.branch('path:ratio>=1e9')
        if c == 'near-miss-joints':
            ctx.branch('path:near-miss-joints')
    _exercise(ctx, p, rng)
    # a path derived from one that has already answered queries (and so carries cached fractions) is a path
    # like any other: the same relations hold for it, with its own segments' arc-length fractions
    has_arc = any(type(s).__name__ == 'Arc' for s in p)
    how = rng.choice(['reversed', 'translated', 'rotated', 'scaled-uniform'] + ([] if has_arc else ['scaled-xy', 'scaled-xy']))
    try:
        q = {'reversed': lambda: p.reversed(), 'translated': lambda: p.translated(3 - 4j),
             'rotated': lambda: p.rotated(37.0), 'scaled-uniform': lambda: p.scaled(2.5),
             'scaled-xy': lambda: p.scaled(3.0, 0.25)}[how]()
    except Exception:
        return                      # transformations are C10's subject
    ctx.branch('path:derived-after-queries')
    ctx.note('derived:' + how)
    try:
        _exercise(ctx, q, rng, light=True)
    except core.Skip:
        pass


def _exercise(ctx, p, rng, light=False):
    m = _model(p)
    if m is None:
        raise core.Skip('path of zero or non-finite length')
    Ts = [0, 1, 0.0, 1.0, float(np.nextafter(1.0, 0.0)), float(np.nextafter(0.0, 1.0)), 0.5]
    ctx.branch('T:nextafter(1,0)')
    for c in m['cum'][1:-1]:
        if 0 < c < 1:
            ctx.branch('T:boundary')
            ctx.branch('T:boundary+-ulp')
            Ts += [c, float(np.nextafter(c, 0.0)), float(np.nextafter(c, 1.0))]
    Ts += [rng.uniform(0, 1) for _ in range(4)]
    Ts += [1 - 10.0 ** rng.uniform(-16, -3), 10.0 ** rng.uniform(-16, -3)]
    if light:
        Ts = Ts[:1] + Ts[6:]
    for T in Ts:
        if not 0 <= T <= 1:
            continue
        try:
            p.point(T)
        except Exception:
            pass                    # judged by the exception observer
        try:
            k, t = p.T2t(T)
        except Exception:
            continue
        # the statement's first sentence: point(T) IS the point of segment k at t for (k, t) = T2t(T)
        try:
            zT = complex(p.point(T))
        except Exception:
            zT = None
        if zT is not None and 0 <= k < len(p):
            with monitor.suspended():
                zk = complex(p[k].point(t))
            ctx.verdict()
            tolc = 64 * EPS * m['mag'] + 32 * EPS / max(m['fr'][k], 1e-300) * m['ctrl'][k] + \
                (1e-9 * max(p[k].radius.real, p[k].radius.imag) if type(p[k]).__name__ == 'Arc' else 0.0)
            if m['fr'][k] > 0 and not (abs(zT - zk) <= tolc):
                gap = 'across-a-gap' if any(abs(T - c) <= 8 * EPS for c in m['cum'][1:-1]) else 'interior'
                ctx.violation('incoherent/point-vs-T2t/' + gap,
                              'point(T) is not segment k at parameter t for (k, t) = T2t(T)',
                              {'T': T, 'k': k, 't': t, 'point(T)': repr(zT), 'seg.point(t)': repr(zk)})
        # inverse relation
        if m['fr'][k] > 0:
            Tb = p.t2T(k, t)
            ctx.verdict()
            if not (abs(Tb - T) <= 32 * EPS):
                ctx.violation('inverse/t2T(T2t(T))', 't2T(T2t(T)) != T', {'T': T, 'k': k, 't': t, 'back': Tb})
    for k in range(len(p)):
        for t in (0, 1, 0.5, rng.uniform(0, 1)):
            p.t2T(k, t)
        p.t2T(p[k], 0.25)
    p.iscontinuous()
    p.continuous_subpaths()
    if p.iscontinuous():
        p.isclosed()
    p.start
    p.end


def crash_key(ctx, case, e, site):
    return 'crash/%s@%s' % (type(e).__name__, site)


REGISTER = True
TECHNIQUE = 'runtime monitors on Path.point/T2t/t2T (results and exceptions) and the topology queries against cumulative arc-length fractions and joints recomputed by the oracle; boundary-value T workload'
LEVEL_TEXT = ('Every point/T2t/t2T call of the workload is compared with the oracle\'s own cumulative arc-length fractions (either neighbour accepted '
              'within 8 ulp of a boundary), every T in [0,1] must be answered, t2T(T2t(T)) must return T; iscontinuous/isclosed/continuous_subpaths '
              'are compared with the joints recomputed from end points (continuity, maximality, concatenation by identity).')
LEVEL_NOTE = 'Segment length() is trusted here (C06 checks it); T values not generated are not covered.'
