"""Shared oracles and generators for the intersection properties C11 (soundness) and
C12 (completeness)."""
import math
from fractions import Fraction as F

import numpy as np

from .. import core, gen, monitor
from ..ref import exact as X

EPS = gen.EPS
SEGN = ('Line', 'QuadraticBezier', 'CubicBezier', 'Arc')


def is_seg(x):
    return type(x).__name__ in SEGN


def bps_of(seg):
    n = type(seg).__name__
    if n == 'Line':
        return [seg.start, seg.end]
    if n == 'QuadraticBezier':
        return [seg.start, seg.control, seg.end]
    if n == 'CubicBezier':
        return [seg.start, seg.control1, seg.control2, seg.end]
    return None


def samples(seg, n=65):
    t = np.linspace(0, 1, n)
    if type(seg).__name__ == 'Arc':
        return np.asarray(seg.point(t))
    pts = [np.full(t.shape, complex(p)) for p in bps_of(seg)]
    while len(pts) > 1:
        pts = [(1 - t) * pts[i] + t * pts[i + 1] for i in range(len(pts) - 1)]
    return pts[0]


def diag(seg):
    s = samples(seg)
    return abs(complex(s.real.max() - s.real.min(), s.imag.max() - s.imag.min()))


def pair_size(a, b):
    return max(diag(a), diag(b), 1e-300)


def has_arc(a, b):
    return type(a).__name__ == 'Arc' or type(b).__name__ == 'Arc'


def general_arcs(a, b):
    """two arcs that are not both circular and unrotated: solver documented as not fully implemented"""
    if type(a).__name__ == 'Arc' and type(b).__name__ == 'Arc':
        ok = all(x.rotation == 0 and x.radius.real == x.radius.imag for x in (a, b))
        return not ok
    return False


def tangent(seg, t):
    with monitor.suspended():
        d = complex(seg.derivative(t)) if type(seg).__name__ != 'Line' else complex(seg.end - seg.start)
    return d


def crossing_angle(a, ta, b, tb):
    """angle in degrees between the tangents (0..90), None where a tangent vanishes"""
    u, v = tangent(a, ta), tangent(b, tb)
    if abs(u) == 0 or abs(v) == 0:
        return None
    s = abs(u.real * v.imag - u.imag * v.real) / (abs(u) * abs(v))
    return math.degrees(math.asin(min(1.0, s)))


def cluster(pairs, a, b, tol):
    """group reported pairs into crossings: pairs whose points lie within tol are one crossing"""
    out = []
    for t1, t2 in pairs:
        p = complex(a.point(t1))
        for c in out:
            if abs(c['p'] - p) <= tol:
                c['pairs'].append((t1, t2))
                break
        else:
            out.append({'p': p, 'pairs': [(t1, t2)]})
    return out


def pair_key(a, b):
    return '%s-%s' % (type(a).__name__, type(b).__name__)


# --------------------------------------------------------------------------
# exact crossing count for Line x Bezier (degree 1..3) in general position

def exact_line_bezier(bez_pts, q0, q1):
    """returns ('count', k, roots) or ('skip', reason).  bez_pts: control points (floats/complex),
    line from q0 to q1.  Roots are (t on bezier, u on line) floats."""
    bp = [X.cfr(p) for p in bez_pts]
    a0, a1 = X.cfr(q0), X.cfr(q1)
    dx, dy = a1[0] - a0[0], a1[1] - a0[1]
    if dx == 0 and dy == 0:
        return ('skip', 'degenerate line')
    # g(t) = cross(q1 - q0, B(t) - q0)
    gx = X.power_coeffs_real([p[0] - a0[0] for p in bp])
    gy = X.power_coeffs_real([p[1] - a0[1] for p in bp])
    g = X.ptrim(X.padd(X.pscale(gy, dx), X.pscale(gx, -dy)))
    if g == [0]:
        return ('skip', 'bezier lies on the line')
    if len(g) == 1:
        return ('count', 0, [])
    ivs, _ = X.int_real_roots(g, width_bits=44)
    L2 = dx * dx + dy * dy
    dg = X.pderiv(g)
    out = []
    mids = [(lo + hi) / 2 for lo, hi, m in ivs]
    n = len(bp) - 1
    for (lo, hi, mult), r in zip(ivs, mids):
        if r < -F(1, 10 ** 6) or r > 1 + F(1, 10 ** 6):
            continue
        if mult:
            return ('skip', 'tangency (multiple root)')
        if abs(r) < F(1, 10 ** 6) or abs(r - 1) < F(1, 10 ** 6):
            return ('skip', 'crossing at a bezier end point')
        if any(abs(r - o) < F(1, 10 ** 4) for o in mids if o is not r):
            return ('skip', 'two crossings within 1e-4 in parameter')
        bx = X.peval(gx, r)
        by = X.peval(gy, r)
        u = (bx * dx + by * dy) / L2
        if abs(u) < F(1, 10 ** 6) or abs(u - 1) < F(1, 10 ** 6):
            return ('skip', 'crossing at a line end point')
        # transversality: |g'(r)| = |L| |B'(r)| sin(angle)
        dre = X.bez_real(X.diff_ctrl([p[0] for p in bp]), r) if n >= 1 else F(0)
        dim = X.bez_real(X.diff_ctrl([p[1] for p in bp]), r) if n >= 1 else F(0)
        speed2 = dre * dre + dim * dim
        gp = X.peval(dg, r)
        if speed2 == 0 or float(gp * gp) < 1e-6 * float(L2 * speed2):
            return ('skip', 'near-tangential crossing')
        if 0 < u < 1:
            out.append((float(r), float(u)))
    return ('count', len(out), out)


# --------------------------------------------------------------------------
# generators

def _rand_bez(rng, kind, scale, centre=0j):
    n = {'L': 2, 'Q': 3, 'C': 4}[kind]
    pts = [centre + gen.scaled_point(rng, scale) for _ in range(n)]
    if kind == 'L' and pts[0] == pts[1]:
        pts[1] += scale
    return [kind] + [[z.real, z.imag] for z in pts]


def _rand_arc(rng, scale, centre=0j, simple=False):
    s = centre + gen.scaled_point(rng, scale)
    e = centre + gen.scaled_point(rng, scale)
    if e == s:
        e = s + scale
    r = abs(e - s) * rng.uniform(0.55, 2.5)
    if simple:
        return ['A', [s.real, s.imag], [r, r], 0, rng.random() < .5, rng.random() < .5, [e.real, e.imag]]
    return ['A', [s.real, s.imag], [r, r * rng.choice([1.0, rng.uniform(0.4, 2.5)])],
            rng.choice([0, 0, 30.0, 90, rng.uniform(-180, 180)]), rng.random() < .5, rng.random() < .5, [e.real, e.imag]]


def rand_seg_spec(rng, kind, scale, centre=0j, simple_arc=False):
    if kind == 'A':
        return _rand_arc(rng, scale, centre, simple_arc)
    return _rand_bez(rng, kind, scale, centre)


def shift_spec(spec, dz):
    out = list(spec)
    for i, v in enumerate(spec):
        if isinstance(v, list) and len(v) == 2 and not (spec[0] == 'A' and i == 2):
            out[i] = [v[0] + dz.real, v[1] + dz.imag]
    return out


def rotate_spec(spec, ang, about):
    w = complex(math.cos(ang), math.sin(ang))
    out = list(spec)
    for i, v in enumerate(spec):
        if isinstance(v, list) and len(v) == 2 and not (spec[0] == 'A' and i == 2):
            z = w * (complex(*v) - about) + about
            out[i] = [z.real, z.imag]
    if spec[0] == 'A' and spec[2][0] != spec[2][1]:
        out[3] = spec[3] + math.degrees(ang)      # (a circle keeps rotation 0: it is the same circle)
    return out


def polyline_crossings(a, b, n=1024):
    """all crossings of the two sampled polylines as (ta, tb) (independent dense sweep)"""
    pa, pb = samples(a, n + 1), samples(b, n + 1)
    a0, a1 = pa[:-1], pa[1:]
    out = []
    # coarse grid pruning by bounding boxes of chunks
    step = 32
    for i in range(0, n, step):
        ca0, ca1 = a0[i:i + step], a1[i:i + step]
        axmin, axmax = min(ca0.real.min(), ca1.real.min()), max(ca0.real.max(), ca1.real.max())
        aymin, aymax = min(ca0.imag.min(), ca1.imag.min()), max(ca0.imag.max(), ca1.imag.max())
        for j in range(0, n, step):
            cb0, cb1 = pb[j:j + step], pb[j + 1:j + step + 1]
            if cb0.real.min() > axmax and cb1.real.min() > axmax or max(cb0.real.max(), cb1.real.max()) < axmin:
                continue
            if min(cb0.imag.min(), cb1.imag.min()) > aymax or max(cb0.imag.max(), cb1.imag.max()) < aymin:
                continue
            P = ca0[:, None]
            R = (ca1 - ca0)[:, None]
            Qq = cb0[None, :]
            S = (cb1 - cb0)[None, :]
            den = R.real * S.imag - R.imag * S.real
            with np.errstate(divide='ignore', invalid='ignore'):
                QP = Qq - P
                tt = (QP.real * S.imag - QP.imag * S.real) / den
                uu = (QP.real * R.imag - QP.imag * R.real) / den
            hit = (den != 0) & (tt >= 0) & (tt < 1) & (uu >= 0) & (uu < 1)
            for ii, jj in zip(*np.nonzero(hit)):
                out.append(((i + ii + tt[ii, jj]) / n, (j + jj + uu[ii, jj]) / n))
    return out


def make_crossing(rng, ka, kb, scale, simple_arcs=False, min_angle=6.0, tries=30):
    """two segment specs through a common point: returns (specA, specB, tA, tB) or None"""
    for _ in range(tries):
        sa = rand_seg_spec(rng, ka, scale, 0j, simple_arcs)
        sb = rand_seg_spec(rng, kb, scale, 0j, simple_arcs)
        A, B = gen.seg(sa), gen.seg(sb)
        tA, tB = rng.uniform(0.1, 0.9), rng.uniform(0.1, 0.9)
        with monitor.suspended():
            pA, pB = complex(A.point(tA)), complex(B.point(tB))
        sb = shift_spec(sb, pA - pB)
        B = gen.seg(sb)
        ang = crossing_angle(A, tA, B, tB)
        if ang is None:
            continue
        if ang < min_angle:
            sb = rotate_spec(sb, math.radians(rng.uniform(20, 160)), pA)
            B = gen.seg(sb)
            ang = crossing_angle(A, tA, B, tB)
            if ang is None or ang < min_angle:
                continue
        with monitor.suspended():
            if abs(complex(B.point(tB)) - pA) > 1e-9 * scale:
                # rotating/shifting an arc re-parameterises it; locate tB again
                ts = np.linspace(0, 1, 4097)
                d = np.abs(np.asarray(B.point(ts)) - pA)
                tB = float(ts[d.argmin()])
                if d.min() > 1e-3 * scale or not 0.05 < tB < 0.95:
                    continue
        if sa == sb:
            continue
        return sa, sb, tA, tB
    return None
