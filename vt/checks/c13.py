"""C13 - radialrange/closest/farthest point return the global extremes of distance.

Monitors: bezier_radialrange, Line.radialrange, Path.radialrange, closest_point_in_path,
          farthest_point_in_path (bezier_radialrange is also reached from other code).
Oracle  : exact global extremes of |B(t) - z|^2 on [0,1]: the real roots of its derivative are
          isolated with Sturm sequences on the exact rational polynomial and the candidates
          (critical points and end points) are evaluated exactly.
"""
import math
import random
from fractions import Fraction as F

import numpy as np

from .. import core, gen, monitor
from ..ref import exact as X

PROP = 'C13'
CONFIGS = ['scipy']
DECIDING = ['path.bezier_radialrange', 'Line.radialrange', 'Path.radialrange', 'path.closest_point_in_path',
            'path.farthest_point_in_path']
ANCHORED = ['bezier_radialrange', 'Line.radialrange', 'Path.radialrange', 'closest_point_in_path',
            'farthest_point_in_path', 'polyroots']
RULE = ('cases = one Bezier segment or Bezier path with a query point z: far away (100x size), near the curve (1e-3..1e-9 from it), '
        'on the curve, at a centre of curvature of a circle-like cubic (clustered critical points), beyond either end; segments '
        'generic / collinear / looped; distinct by spec + z; non-trivial if an oracle verdict was reached')
RULE += '; re-query after control-point assignment and after edits through the Path interface'
ASSUMPTIONS = ['vt/ref/exact.py (Sturm isolation, exact evaluation) is right',
               'optimality is demanded to 1e-9 of the curve size plus the rounding of |B(t) - z| itself']
TIERS = {
    'quick': {'shards': 14, 'random': 12000, 'timeout': 600, 'min_cases': 8000,
              'require_branches': ['z:on-curve', 'z:far', 'z:near', 'z:centre-of-curvature', 'z:beyond-end',
                                   'kind:path', 'extreme:interior-min', 'extreme:endpoint-min', 'requery-after-mutation', 'requery-path-after-edit']},
    'thorough': {'shards': 14, 'random': 400000, 'timeout': 3000, 'min_cases': 200000,
                 'require_branches': ['z:on-curve', 'z:far', 'z:near', 'z:centre-of-curvature', 'z:beyond-end',
                                      'kind:path', 'extreme:interior-min', 'extreme:endpoint-min']},
}
EPS = gen.EPS


def _bps(seg):
    n = type(seg).__name__
    if n == 'Line':
        return [seg.start, seg.end]
    if n == 'QuadraticBezier':
        return [seg.start, seg.control, seg.end]
    if n == 'CubicBezier':
        return [seg.start, seg.control1, seg.control2, seg.end]
    return None


def exact_extremes(bps, z):
    """((dmin, tmin), (dmax, tmax), min is interior?) of |B(t) - z| on [0,1], exact up to the final sqrt"""
    zr, zi = F(complex(z).real), F(complex(z).imag)
    re = [F(complex(p).real) - zr for p in bps]
    im = [F(complex(p).imag) - zi for p in bps]
    px, py = X.power_coeffs_real(re), X.power_coeffs_real(im)
    sq = X.padd(X.pmul(px, px), X.pmul(py, py))
    cands = [F(0), F(1)]
    d = X.ptrim(X.pderiv(sq))
    if len(d) > 1:
        ivs, _ = X.int_real_roots(d, width_bits=46)
        cands += [(lo + hi) / 2 for lo, hi, m in ivs if 0 < (lo + hi) / 2 < 1]
    vals = [(max(X.peval(sq, c), F(0)), c) for c in cands]
    lo = min(vals)
    hi = max(vals)
    return (math.sqrt(float(lo[0])), float(lo[1])), (math.sqrt(float(hi[0])), float(hi[1])), lo[1] not in (0, 1)


def seg_size(bps):
    b = [complex(p) for p in bps]
    return max(abs(p - b[0]) for p in b) or max(abs(b[0]), 1e-300)


def judge_seg(ctx, name, seg, z, ret):
    bps = _bps(seg)
    if bps is None:
        return False
    try:
        z = complex(z)
        (dmin, tmin), (dmax, tmax) = ret
        dmin, tmin, dmax, tmax = float(dmin), float(tmin), float(dmax), float(tmax)
    except (TypeError, ValueError):
        ctx.verdict()
        ctx.violation(name + '/shape', 'radialrange did not return ((dmin,tmin),(dmax,tmax))', {'ret': repr(ret)})
        return True
    ctx.verdict()
    size = seg_size(bps)
    mag = max(abs(complex(p)) for p in bps) + abs(z)
    rnd = 64 * EPS * mag
    if not (0 <= tmin <= 1 and 0 <= tmax <= 1):
        ctx.violation(name + '/t-range', 'tmin/tmax outside [0,1]', {'tmin': tmin, 'tmax': tmax})
        return True
    for lab, d, t in (('min', dmin, tmin), ('max', dmax, tmax)):
        here = abs(complex(seg.point(t)) - z)
        if not (abs(here - d) <= rnd + 8 * EPS * here):
            ctx.violation(name + '/d-is-not-distance', 'd%s is not |point(t%s) - z|' % (lab, lab),
                          {'d': d, 't': t, 'distance_at_t': here})
            return True
    (rmin, rtmin), (rmax, rtmax), interior = exact_extremes(bps, z)
    ctx.branch('extreme:interior-min' if interior else 'extreme:endpoint-min')
    tol = 1e-9 * size + rnd
    if not (dmin <= rmin + tol):
        ctx.violation(name + '/min-not-global', 'a point of the segment is closer to z than dmin',
                      {'seg': gen.seg_spec(seg), 'z': repr(z), 'dmin': dmin, 'tmin': tmin, 'true_min': rmin, 'at': rtmin,
                       'tol': tol})
    elif not (dmax >= rmax - tol):
        ctx.violation(name + '/max-not-global', 'a point of the segment is farther from z than dmax',
                      {'seg': gen.seg_spec(seg), 'z': repr(z), 'dmax': dmax, 'tmax': tmax, 'true_max': rmax, 'at': rtmax,
                       'tol': tol})
    return True


def post_brr(call):
    seg, z = call.a.get('seg'), call.a.get('origin')
    if call.a.get('return_all_global_extrema'):
        return False
    return judge_seg(core.CTX, 'bezier_radialrange/' + type(seg).__name__, seg, z, call.ret)


def post_line_rr(call):
    return judge_seg(core.CTX, 'Line.radialrange', call.args[0], call.a.get('origin'), call.ret)


def _judge_path(ctx, name, p, z, triple, which):
    """triple = (d, t, idx) claimed as the path-wide min or max"""
    try:
        d, t, idx = triple
        d, t, idx = float(d), float(t), int(idx)
    except (TypeError, ValueError):
        ctx.violation(name + '/shape', 'did not return (d, t, seg_idx)', {'ret': repr(triple)})
        return
    if not (0 <= idx < len(p)) or not (0 <= t <= 1):
        ctx.violation(name + '/range', 'index or t out of range', {'t': t, 'idx': idx})
        return
    z = complex(z)
    mag = max(abs(complex(q)) for s in p for q in _bps(s)) + abs(z)
    size = max(seg_size(_bps(s)) for s in p)
    rnd = 64 * EPS * mag
    here = abs(complex(p[idx].point(t)) - z)
    if not (abs(here - d) <= rnd + 8 * EPS * here):
        ctx.violation(name + '/d-is-not-distance', 'the returned segment does not attain the returned distance',
                      {'d': d, 't': t, 'idx': idx, 'distance_there': here})
        return
    refs = [exact_extremes(_bps(s), z) for s in p]
    tol = 1e-9 * size + rnd
    if which == 'min':
        best = min(r[0][0] for r in refs)
        if not (d <= best + tol):
            ctx.violation(name + '/min-not-global', 'a point of the path is closer to z than the returned minimum',
                          {'d': d, 'idx': idx, 'true_min': best, 'path': gen.path_spec(p), 'z': repr(z)})
    else:
        best = max(r[1][0] for r in refs)
        if not (d >= best - tol):
            ctx.violation(name + '/max-not-global', 'a point of the path is farther from z than the returned maximum',
                          {'d': d, 'idx': idx, 'true_max': best, 'path': gen.path_spec(p), 'z': repr(z)})


def post_path_rr(call):
    ctx = core.CTX
    p, z = call.args[0], call.a.get('origin')
    if len(p) == 0 or any(_bps(s) is None for s in p):
        return False
    ctx.verdict()
    _judge_path(ctx, 'Path.radialrange', p, z, call.ret[0], 'min')
    _judge_path(ctx, 'Path.radialrange', p, z, call.ret[1], 'max')
    return True


def post_closest(call):
    ctx = core.CTX
    p, z = call.a.get('path'), call.a.get('pt')
    if len(p) == 0 or any(_bps(s) is None for s in p):
        return False
    ctx.verdict()
    _judge_path(ctx, 'closest_point_in_path', p, z, call.ret, 'min')
    return True


def post_farthest(call):
    ctx = core.CTX
    p, z = call.a.get('path'), call.a.get('pt')
    if len(p) == 0 or any(_bps(s) is None for s in p):
        return False
    ctx.verdict()
    _judge_path(ctx, 'farthest_point_in_path', p, z, call.ret, 'max')
    return True


def install(ctx):
    import svgpathtools.path as P
    monitor.install(P, 'bezier_radialrange', post=post_brr)
    monitor.install(P.Line, 'radialrange', post=post_line_rr)
    monitor.install(P.Path, 'radialrange', post=post_path_rr)
    monitor.install(P, 'closest_point_in_path', post=post_closest)
    monitor.install(P, 'farthest_point_in_path', post=post_farthest)


# --------------------------------------------------------------------------
def _query(rng, seg, cls_out):
    bps = [complex(*z) for z in seg[1:]]
    size = max(abs(p - bps[0]) for p in bps) or 1.0
    n = len(bps) - 1
    t = rng.uniform(0, 1)

    def pt(u):
        pts = list(bps)
        while len(pts) > 1:
            pts = [(1 - u) * pts[i] + u * pts[i + 1] for i in range(len(pts) - 1)]
        return pts[0]

    def tangent(u):
        d = [n * (bps[i + 1] - bps[i]) for i in range(n)]
        while len(d) > 1:
            d = [(1 - u) * d[i] + u * d[i + 1] for i in range(len(d) - 1)]
        return d[0] if d else 1 + 0j
    k = rng.random()
    if k < 0.2:
        cls_out.append('z:far')
        ang = rng.uniform(0, 2 * math.pi)
        return bps[0] + 100 * size * complex(math.cos(ang), math.sin(ang))
    if k < 0.4:
        cls_out.append('z:near')
        tg = tangent(t)
        nrm = 1j * tg / abs(tg) if abs(tg) else 1j
        return pt(t) + nrm * size * 10.0 ** rng.uniform(-9, -3) * rng.choice([-1, 1])
    if k < 0.55:
        cls_out.append('z:on-curve')
        return pt(rng.choice([t, 0, 1, 0.5]))
    if k < 0.75:
        cls_out.append('z:beyond-end')
        if rng.random() < 0.5:
            tg = tangent(0)
            return bps[0] - tg / (abs(tg) or 1) * size * rng.uniform(0.01, 3)
        tg = tangent(1)
        return bps[-1] + tg / (abs(tg) or 1) * size * rng.uniform(0.01, 3)
    cls_out.append('z:generic')
    return bps[0] + complex(rng.uniform(-2, 2), rng.uniform(-2, 2)) * size


def cases(ctx):
    rng = ctx.rng
    n = TIERS[ctx.tier]['random'] // ctx.nshards
    kappa = 4 * (math.sqrt(2) - 1) / 3
    for i in range(n):
        k = rng.random()
        cls = []
        scale = 10.0 ** rng.uniform(-2, 4)
        c0 = gen.scaled_point(rng, scale)
        if k < 0.15:
            # circle-like cubic (quarter circle approximation): z at the centre -> clustered critical points
            r = scale * rng.uniform(0.5, 2)
            rot = complex(math.cos(i), math.sin(i))
            pts = [c0 + rot * r * z for z in (1 + 0j, 1 + kappa * 1j, kappa + 1j, 1j)]
            spec = ['C'] + [[z.real, z.imag] for z in pts]
            z = c0 + rot * r * complex(rng.uniform(-1e-3, 1e-3), rng.uniform(-1e-3, 1e-3)) * rng.choice([0, 1, 1e-3])
            cls += ['cubic:circle-like', 'z:centre-of-curvature']
            yield {'kind': 'seg', 'seg': spec, 'z': [z.real, z.imag], 'cls': cls}
            continue
        if k < 0.75:
            kind = rng.choice('LQQCCC')
            m = rng.random()
            if m < 0.2 and kind != 'L':
                a, d = c0, gen.scaled_point(rng, scale)
                pts = [a + d * rng.uniform(-1, 2) for _ in range({'Q': 3, 'C': 4}[kind])]
                spec = [kind] + [[z.real, z.imag] for z in pts]
                cls.append('collinear')
            elif m < 0.35 and kind == 'C':
                w = scale
                pts = [c0, c0 + complex(2 * w, 1.5 * w), c0 + complex(-w, 1.5 * w), c0 + complex(w, 0)]
                spec = ['C'] + [[z.real, z.imag] for z in pts]
                cls.append('looped')
            else:
                spec = gen.rand_seg_spec(rng, kind, c0, rng.choice(['rand', 'int', 'half']))
            if spec[0] == 'L' and spec[1] == spec[2]:
                continue
            z = _query(rng, spec, cls)
            yield {'kind': 'seg', 'seg': spec, 'z': [z.real, z.imag], 'cls': ['seg:' + kind] + cls}
        else:
            kinds = [rng.choice('LQC') for _ in range(rng.randint(1, 6))]
            specs = gen.rand_path_specs(rng, kinds, rng.choice(['rand', 'int', 'half']), rng.choice(['open', 'line']))
            if any(s[0] == 'L' and s[1] == s[2] for s in specs):
                continue
            z = _query(rng, rng.choice(specs), cls)
            yield {'kind': 'path', 'segs': specs, 'z': [z.real, z.imag], 'cls': ['path'] + cls}


def run_case(ctx, case):
    import svgpathtools.path as P
    z = complex(*case['z'])
    for c in case['cls']:
        if c.startswith('z:'):
            ctx.branch(c)
    if case['kind'] == 'seg':
        s = gen.seg(case['seg'])
        s.radialrange(z)
        pth = P.Path(s)
        pth.radialrange(z)
        # the same object, same query point, after its control points were reassigned
        ctx.branch('requery-after-mutation')
        d = (complex(s.end) - complex(s.start)) or 1 + 1j
        if type(s).__name__ == 'QuadraticBezier':
            s.control = s.control + 0.7j * d
        elif type(s).__name__ == 'CubicBezier':
            s.control1 = s.control1 - 0.6j * d
            s.control2 = s.control2 + 0.9 * d
        s.radialrange(z)
        pth.end = complex(s.end) + 0.5 * d
        pth.radialrange(z)
        s.radialrange(z)
    else:
        ctx.branch('kind:path')
        p = gen.path(case['segs'])
        p.radialrange(z)
        P.closest_point_in_path(z, p)
        P.farthest_point_in_path(z, p)
        # the same path, the same query point, after an edit through the Path's own interface
        ctx.branch('requery-path-after-edit')
        rng = random.Random(repr(case['z']))
        d = (complex(p[0].end) - complex(p[0].start)) or 1 + 1j
        how = rng.choice(['start=', 'end=', 'setitem', 'append', 'del'])
        if how == 'start=':
            p.start = complex(p.start) - 2.5 * d
        elif how == 'end=':
            p.end = complex(p.end) + 3.5j * d
        elif how == 'setitem':
            k = rng.randrange(len(p))
            p[k] = P.Line(p[k].start + 2j * d, p[k].end - 1.5 * d)
        elif how == 'append':
            p.append(P.Line(p.end, complex(p.end) + 4 * d))
        elif len(p) > 1:
            del p[rng.randrange(len(p))]
        P.closest_point_in_path(z, p)
        P.farthest_point_in_path(z, p)
        p.radialrange(z)


def crash_key(ctx, case, e, site):
    return 'crash/%s@%s/%s' % (type(e).__name__, site, case['kind'])


REGISTER = True
TECHNIQUE = 'runtime monitors on bezier_radialrange/Line.radialrange/Path.radialrange/closest/farthest with exact global extremes of |B(t)-z|^2 (Sturm-isolated critical points, exact evaluation)'
LEVEL_TEXT = ('Every radial-range query of the workload is judged: parameters in [0,1], the returned distances are the distances at the returned '
              'parameters, and no point of the segment/path is closer than dmin or farther than dmax, decided against the exact critical points '
              'of the squared distance polynomial; path-level results must name a segment that attains the path-wide extreme.')
LEVEL_NOTE = 'Trusts vt/ref/exact.py; arcs are outside the statement (radialrange is not implemented for them).'
