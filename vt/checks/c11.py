"""C11 - Every reported intersection is a real one, in range, with coherent parameters.

Monitors: intersect of the four segment classes, bezier_intersections,
          bezier_by_line_intersections, Path.intersect.
Oracle  : the two curves' own points at the reported parameters must coincide; swap
          symmetry is decided on crossings (clusters of reported pairs), not on reports.
"""
import cmath
import math

import numpy as np

from .. import core, gen, monitor
from . import _isect as I

PROP = 'C11'
CONFIGS = ['scipy']
DECIDING = ['Line.intersect', 'QuadraticBezier.intersect', 'CubicBezier.intersect', 'Arc.intersect',
            'bezier.bezier_intersections', 'bezier.bezier_by_line_intersections', 'Path.intersect']
ANCHORED = ['.intersect', 'bezier_intersections', 'bezier_by_line_intersections', 'point_to_t', 'phase2t']
RULE = ('cases = an ordered pair of segments (all 16 type pairs; arcs rotated or not, circular or not) in one of the configurations '
        '{constructed crossing, tangential touch, end-point touch, random (disjoint or crossing, overlapping boxes), near-miss with gap '
        '1e-3..1e-9 of the size, axis-aligned straight "curves"}, or a pair of paths of 2-5 segments; every returned list is judged; '
        'distinct by the two specs; non-trivial if an oracle verdict was reached')
RULE += '; re-query after a same-count edit of a path and after assigning path.start/path.end; axis-parallel lines through unrotated ellipses; figures 1e4..1e6 sizes away from the origin'
ASSUMPTIONS = ['the segments\' own point() is the reference (C03/C04)',
               'for two arcs that are not both circular and unrotated an exception is tolerated (documented as not fully implemented)',
               'swap symmetry compares crossings = clusters of reported pairs whose points lie within twice the tolerance; parameters are compared '
               '(1e-4) only for crossings at >= 6 degrees, where they are well conditioned']
TIERS = {
    'quick': {'shards': 14, 'random': 5000, 'timeout': 900, 'min_cases': 3000, 'max_timeouts': 10,
              'require_branches': ['cfg:crossing', 'cfg:tangent', 'cfg:endpoint', 'cfg:near-miss', 'cfg:axis-aligned',
                                   'cfg:paths', 'cfg:ellipse-axis-line', 'cfg:far-arc-line', 'cfg:hairpin', 'cfg:shallow', 'far-from-origin', 'paths:requery-after-edit', 'paths:requery-after-endpoint-assignment', 'pair:Arc-Arc', 'pair:CubicBezier-CubicBezier', 'pair:Line-Arc',
                                   'reported>=1']},
    'thorough': {'shards': 14, 'random': 200000, 'timeout': 3400, 'min_cases': 100000, 'max_timeouts': 200,
                 'require_branches': ['cfg:crossing', 'cfg:tangent', 'cfg:endpoint', 'cfg:near-miss', 'cfg:axis-aligned',
                                      'cfg:paths', 'cfg:ellipse-axis-line', 'cfg:far-arc-line', 'cfg:hairpin', 'cfg:shallow', 'far-from-origin', 'paths:requery-after-edit', 'paths:requery-after-endpoint-assignment', 'pair:Arc-Arc', 'pair:CubicBezier-CubicBezier', 'pair:Line-Arc',
                                      'reported>=1']},
}
CASE_TIMEOUT = 20
EPS = gen.EPS


def _tol(a, b):
    return (1e-3 if I.has_arc(a, b) else 1e-5) * I.pair_size(a, b)


def _pairs(ret):
    out = []
    for x in ret:
        t1, t2 = x
        out.append((float(t1), float(t2)))
    return out


def judge_pairs(ctx, name, a, b, ret, symmetric=True):
    """soundness of a list of (t1, t2) for segments a, b"""
    key = I.pair_key(a, b)
    ctx.verdict()
    try:
        pairs = _pairs(ret)
    except (TypeError, ValueError):
        ctx.violation('%s/%s/shape' % (name, key), 'intersect did not return a list of (t1, t2) pairs', {'ret': repr(ret)[:200]})
        return
    if pairs:
        ctx.branch('reported>=1')
    tol = _tol(a, b)
    for t1, t2 in pairs:
        if not (0 <= t1 <= 1 and 0 <= t2 <= 1):
            ctx.violation('%s/%s/out-of-range' % (name, key), 'a reported parameter lies outside [0,1]',
                          {'a': gen.seg_spec(a), 'b': gen.seg_spec(b), 'pair': [t1, t2]})
            return
        d = abs(complex(a.point(t1)) - complex(b.point(t2)))
        if not (d <= tol):
            ctx.violation('%s/%s/not-an-intersection' % (name, key),
                          'the two curves\' points at the reported parameters do not coincide',
                          {'a': gen.seg_spec(a), 'b': gen.seg_spec(b), 'pair': [t1, t2], 'distance': d, 'tol': tol})
            return
    if not symmetric or I.general_arcs(a, b):
        # general arc-arc pairs: documented as not fully implemented; the claim covers whatever is returned
        # (in range, real), not that both operand orders find the same crossings
        return
    # swap symmetry, on crossings
    try:
        rev = _pairs(b.intersect(a))
    except Exception as e:   # noqa
        if I.general_arcs(a, b):
            ctx.note('general_arc_arc_exception_tolerated')
            return
        ctx.violation('%s/%s/swap-raises' % (name, key), 'a.intersect(b) returned but b.intersect(a) raised %s' % type(e).__name__,
                      {'a': gen.seg_spec(a), 'b': gen.seg_spec(b), 'exc': str(e)[:100]})
        return
    ca = I.cluster(pairs, a, b, 2 * tol)
    cb = I.cluster([(t2, t1) for t1, t2 in rev], a, b, 2 * tol)
    for mine, other, who in ((ca, cb, 'a.intersect(b)'), (cb, ca, 'b.intersect(a)')):
        for c in mine:
            match = [o for o in other if abs(o['p'] - c['p']) <= 2 * tol]
            if not match:
                t1, t2 = c['pairs'][0]
                ang = I.crossing_angle(a, t1, b, t2)
                kind = 'transversal' if (ang is not None and ang >= 6) else 'tangential-or-degenerate'
                ctx.violation('%s/%s/swap-asymmetric/%s' % (name, key, kind),
                              'a crossing reported by %s is not reported with the operands swapped' % who,
                              {'a': gen.seg_spec(a), 'b': gen.seg_spec(b), 'pair': [t1, t2], 'angle': ang,
                               'forward': pairs[:6], 'swapped': rev[:6]})
                return
            t1, t2 = c['pairs'][0]
            ang = I.crossing_angle(a, t1, b, t2)
            if ang is not None and ang >= 6:
                best = min(max(abs(t1 - u1), abs(t2 - u2)) for o in match for u1, u2 in o['pairs'])
                if best > 1e-4 and not _revisits(a, b, c['p'], tol):
                    ctx.violation('%s/%s/swap-parameters' % (name, key),
                                  'the swapped call reports the same crossing with different parameters',
                                  {'a': gen.seg_spec(a), 'b': gen.seg_spec(b), 'forward': pairs[:6], 'swapped': rev[:6]})
                    return


def _revisits(a, b, p, tol):
    """does either curve pass through p more than once? (then parameters may legitimately differ)"""
    for s in (a, b):
        d = np.abs(I.samples(s, 2049) - p)
        near = d <= 4 * tol
        runs = int(near[0]) + int(np.count_nonzero(near[1:] & ~near[:-1]))
        if runs > 1:
            return True
    return False


def post_seg_intersect(call):
    ctx = core.CTX
    a, b = call.args[0], call.a.get('other_seg')
    if not I.is_seg(b):
        return False
    ctx.branch('pair:' + I.pair_key(a, b))
    judge_pairs(ctx, 'intersect', a, b, call.ret, symmetric=(call.depth == 0))
    return True


def exc_seg_intersect(call):
    ctx = core.CTX
    a, b = call.args[0], call.a.get('other_seg')
    if not I.is_seg(b) or call.depth > 0:
        return False
    if I.general_arcs(a, b):
        ctx.note('general_arc_arc_exception_tolerated')
        return False
    if a == b:
        return False
    ctx.verdict()
    ctx.violation('intersect/%s/raises/%s' % (I.pair_key(a, b), type(call.exc).__name__),
                  'intersect raised %s' % type(call.exc).__name__,
                  {'a': gen.seg_spec(a), 'b': gen.seg_spec(b), 'exc': str(call.exc)[:120]})
    return True


class _Ctrl(object):
    """adapter: a control-point list as a curve with point()"""

    def __init__(self, pts):
        self.pts = [complex(p) for p in pts]

    def point(self, t):
        pts = list(self.pts)
        while len(pts) > 1:
            pts = [(1 - t) * pts[i] + t * pts[i + 1] for i in range(len(pts) - 1)]
        return pts[0]


def _as_curve(x):
    if I.is_seg(x):
        return x
    try:
        return _Ctrl(list(x))
    except TypeError:
        return None


def post_bezier_intersections(call):
    ctx = core.CTX
    a, b = _as_curve(call.a.get('bez1')), _as_curve(call.a.get('bez2'))
    if a is None or b is None:
        return False
    ctx.verdict()
    sa = np.array([complex(a.point(t)) for t in np.linspace(0, 1, 17)])
    sb = np.array([complex(b.point(t)) for t in np.linspace(0, 1, 17)])
    size = max(abs(complex(np.ptp(sa.real), np.ptp(sa.imag))), abs(complex(np.ptp(sb.real), np.ptp(sb.imag))), 1e-300)
    arc = isinstance(a, object) and (type(a).__name__ == 'Arc' or type(b).__name__ == 'Arc')
    tol = (1e-3 if arc else 1e-5) * size
    for t1, t2 in call.ret:
        if not (0 <= t1 <= 1 and 0 <= t2 <= 1):
            ctx.violation('bezier_intersections/out-of-range', 'a reported parameter lies outside [0,1]', {'pair': [t1, t2]})
            break
        d = abs(complex(a.point(t1)) - complex(b.point(t2)))
        if not (d <= tol):
            ctx.violation('bezier_intersections/not-an-intersection', 'points at the reported parameters do not coincide',
                          {'pair': [float(t1), float(t2)], 'distance': d, 'tol': tol})
            break
    return True


def post_bbl(call):
    ctx = core.CTX
    bez, line = call.a.get('bezier'), call.a.get('line')
    a, b = _as_curve(bez), _as_curve(line)
    if a is None or b is None:
        return False
    ctx.verdict()
    size = max(abs(complex(a.point(0)) - complex(a.point(1))), abs(complex(b.point(0)) - complex(b.point(1))),
               abs(complex(a.point(.5)) - complex(a.point(0))), 1e-300)
    for t1, t2 in call.ret:
        if not (0 <= t1 <= 1 and 0 <= t2 <= 1):
            ctx.violation('bezier_by_line_intersections/out-of-range', 'a reported parameter lies outside [0,1]',
                          {'pair': [float(t1), float(t2)]})
            break
        d = abs(complex(a.point(t1)) - complex(b.point(t2)))
        if not (d <= 1e-5 * size):
            ctx.violation('bezier_by_line_intersections/not-an-intersection',
                          'bezier.point(t1) and line.point(t2) do not coincide (tuple order / filtering)',
                          {'pair': [float(t1), float(t2)], 'distance': d})
            break
    return True


def post_path_intersect(call):
    ctx = core.CTX
    p1, other = call.args[0], call.a.get('other_curve')
    if call.a.get('justonemode'):
        return False
    import svgpathtools.path as P
    p2 = other if isinstance(other, P.Path) else None
    ctx.verdict()
    for item in call.ret:
        try:
            (T1, s1, t1), (T2, s2, t2) = item
        except (TypeError, ValueError):
            ctx.violation('Path.intersect/shape', 'Path.intersect did not return ((T1,seg1,t1),(T2,seg2,t2)) tuples')
            return True
        if not any(s1 is s for s in p1):
            ctx.violation('Path.intersect/seg1-not-member', 'seg1 is not a segment of the first path')
            return True
        if p2 is not None and not any(s2 is s for s in p2):
            ctx.violation('Path.intersect/seg2-not-member', 'seg2 is not a segment of the second path')
            return True
        if p2 is None and s2 is not other:
            ctx.violation('Path.intersect/seg2-not-member', 'seg2 is not the segment that was passed')
            return True
        tol = _tol(s1, s2)
        a, b = complex(s1.point(t1)), complex(s2.point(t2))
        pts = [complex(p1.point(T1)), a, b]
        if p2 is not None:
            pts.append(complex(p2.point(T2)))
        # T <-> t coherence: segments can be tiny fractions of long paths
        sz = max(I.diag(s) for s in p1) if len(p1) else 0
        ptol = tol + 1e-9 * sz
        if not (abs(pts[0] - a) <= ptol):
            ctx.violation('Path.intersect/T1-incoherent', 'path1.point(T1) != seg1.point(t1)',
                          {'T1': float(T1), 't1': float(t1), 'distance': abs(pts[0] - a)})
            return True
        if p2 is not None and not (abs(pts[3] - b) <= ptol + 1e-9 * max(I.diag(s) for s in p2)):
            ctx.violation('Path.intersect/T2-incoherent', 'path2.point(T2) != seg2.point(t2)',
                          {'T2': float(T2), 't2': float(t2), 'distance': abs(pts[3] - b)})
            return True
        if not (abs(a - b) <= tol):
            ctx.violation('Path.intersect/not-an-intersection', 'seg1.point(t1) != seg2.point(t2)',
                          {'distance': abs(a - b), 'tol': tol})
            return True
    return True


def install(ctx):
    import svgpathtools.path as P
    import svgpathtools.bezier as B
    for cls in (P.Line, P.QuadraticBezier, P.CubicBezier, P.Arc):
        monitor.install(cls, 'intersect', post=post_seg_intersect, on_exc=exc_seg_intersect)
    monitor.install(B, 'bezier_intersections', post=post_bezier_intersections)
    monitor.install(B, 'bezier_by_line_intersections', post=post_bbl)
    monitor.install(P.Path, 'intersect', post=post_path_intersect)


# --------------------------------------------------------------------------
# witnesses of repaired defects that no random class reaches reliably (found by the thorough tier)
WITNESSES = [
    # shallow (1.4 degree) crossing at an end point: the band of converged boxes has gaps; b.intersect(a) reported the
    # crossing twice, a.intersect(b) once
    (['C', [0.0, 0.0], [0.23481749443, -0.14205159343], [0.25251665841, -0.37716406787], [-0.30570302311, 0.26225827961]],
     ['C', [-0.02939955796, -0.0314612292], [0.18125478473, -0.24195640443], [0.09894987603, -0.41181280923], [-0.17410256881, -0.12390950691]]),
]


def cases(ctx):
    rng = ctx.rng
    n = TIERS[ctx.tier]['random'] // ctx.nshards
    kinds = 'LQCA'
    if ctx.shard == 0:
        for sa, sb in WITNESSES:
            yield {'kind': 'pair', 'a': sa, 'b': sb, 'cls': ['cfg:witness']}
            yield {'kind': 'pair', 'a': sb, 'b': sa, 'cls': ['cfg:witness']}
    for i in range(n):
        ka, kb = kinds[i % 4], kinds[(i // 4) % 4]
        scale = 10.0 ** rng.uniform(-1, 3)
        cfg = rng.choice(['crossing', 'crossing', 'tangent', 'endpoint', 'random', 'near-miss', 'axis-aligned', 'paths'])
        if rng.random() < 0.05:
            cfg = 'ellipse-axis-line'
        elif rng.random() < 0.05:
            cfg = 'far-arc-line'
        if cfg not in ('ellipse-axis-line', 'far-arc-line') and rng.random() < 0.06:
            # a curve that runs back over (nearly) itself - a hairpin quadratic, a cubic whose second half retraces its
            # first - crossed by another curve: it meets the other curve twice at (nearly) the same point, at quite
            # different parameters
            p0 = gen.scaled_point(rng, scale)
            tip = p0 + scale * rng.uniform(0.5, 2) * cmath.exp(1j * rng.uniform(0, 2 * math.pi))
            w = 10.0 ** rng.uniform(-6, -2) * abs(tip - p0) * 1j * (tip - p0) / abs(tip - p0)
            if rng.random() < 0.5:
                sa = ['Q'] + [[z.real, z.imag] for z in (p0, p0 + 2 * (tip - p0), p0 + w)]
            else:
                sa = ['C'] + [[z.real, z.imag] for z in (p0, tip + (tip - p0) / 3, tip + (tip - p0) / 3 + w, p0 + w)]
            x = p0 + (tip - p0) * rng.uniform(0.2, 0.8)
            d = (tip - p0) * cmath.exp(1j * rng.choice([-1, 1]) * rng.uniform(0.4, 1.5))
            kb2 = rng.choice('LQC')
            q0, q1 = x - d * rng.uniform(0.3, 0.7), x + d * rng.uniform(0.3, 0.7)
            bend = 1j * d * rng.uniform(-0.2, 0.2)
            ctrl = {'L': [], 'Q': [(q0 + q1) / 2 + bend], 'C': [q0 + (q1 - q0) / 3 + bend, q0 + 2 * (q1 - q0) / 3 + bend]}[kb2]
            sb = [kb2] + [[z.real, z.imag] for z in [q0] + ctrl + [q1]]
            if rng.random() < 0.5:
                sa, sb = sb, sa
            yield {'kind': 'pair', 'a': sa, 'b': sb, 'cls': ['cfg:hairpin']}
            continue
        if cfg in ('crossing', 'endpoint') and ka in 'QC' and kb in 'QC' and rng.random() < 0.25:
            # a shallow crossing (0.7 .. 5 degrees) of two Bezier curves, in the interior or at an end point of one:
            # the subdivision converges on a long band of boxes there
            made = I.make_crossing(rng, ka, kb, scale)
            if made is not None:
                sa, sb, tA, tB = made
                A, B = gen.seg(sa), gen.seg(sb)
                with monitor.suspended():
                    ua, ub, pA = I.tangent(A, tA), I.tangent(B, tB), complex(A.point(tA))
                if abs(ua) and abs(ub):
                    want = math.radians(rng.uniform(0.7, 5)) * rng.choice([-1, 1])
                    turn = cmath.phase(ua / ub) + want
                    sb = I.rotate_spec(sb, turn, pA)
                    if cfg == 'endpoint':
                        with monitor.suspended():
                            sb = I.shift_spec(sb, pA - complex(gen.seg(sb).start))
                    yield {'kind': 'pair', 'a': sa, 'b': sb, 'cls': ['cfg:shallow', 'pair:%s%s' % (ka, kb)]}
                    continue
        if cfg == 'far-arc-line':
            # a small unrotated arc 1e5 .. 1e6 radii away from the origin, crossed by a line close to one of the
            # arc's (or the line's) end points
            r = rng.uniform(1, 20)
            rx, ry = (r, r) if rng.random() < 0.5 else (r, r * rng.uniform(0.4, 2.5))
            c = min(r * 10.0 ** rng.uniform(5, 6.3), 5e6) * cmath.exp(1j * rng.uniform(0, 2 * math.pi))
            a0 = rng.uniform(0, 2 * math.pi)
            a1 = a0 + rng.uniform(0.5, 1.9) * math.pi

            def on(th):
                return c + complex(rx * math.cos(th), ry * math.sin(th))
            st, en = on(a0), on(a1)
            sa = ['A', [st.real, st.imag], [rx, ry], 0, (a1 - a0) > math.pi, True, [en.real, en.imag]]
            u = rng.choice([rng.uniform(0.005, 0.08), 1 - rng.uniform(0.005, 0.08), rng.uniform(0.1, 0.9)])
            th = a0 + u * (a1 - a0)
            x = on(th)
            nrm = complex(rx * math.cos(th), ry * math.sin(th))
            d = nrm / abs(nrm) * cmath.exp(1j * rng.uniform(-0.9, 0.9))
            v = rng.choice([rng.uniform(0.01, 0.1), rng.uniform(0.2, 0.8)])
            Ln = r * rng.uniform(0.5, 3)
            p0, p1 = x - d * Ln * v, x + d * Ln * (1 - v)
            sb = ['L', [p0.real, p0.imag], [p1.real, p1.imag]]
            if rng.random() < 0.5:
                sa, sb = sb, sa
            yield {'kind': 'pair', 'a': sa, 'b': sb, 'cls': ['cfg:far-arc-line', 'pair:AL', 'far-from-origin']}
            continue
        simple = (ka == 'A' and kb == 'A' and rng.random() < 0.7)
        if cfg in ('crossing', 'near-miss', 'endpoint'):
            made = I.make_crossing(rng, ka, kb, scale, simple_arcs=simple)
            if made is None:
                continue
            sa, sb, tA, tB = made
            if cfg == 'near-miss':
                A = gen.seg(sa)
                with monitor.suspended():
                    tg = I.tangent(A, tA)
                nrm = 1j * tg / abs(tg) if abs(tg) else 1j
                sb = I.shift_spec(sb, nrm * scale * 10.0 ** rng.uniform(-9, -3))
            if cfg == 'endpoint':
                # make B start at the common point: crop is not available without the library; instead move B's start there
                B = gen.seg(sb)
                with monitor.suspended():
                    pB0 = complex(B.start)
                    pA = complex(gen.seg(sa).point(tA))
                sb = I.shift_spec(sb, pA - pB0)
            cls = ['cfg:' + cfg, 'pair:%s%s' % (ka, kb)]
            if rng.random() < 0.12 and not (ka == 'A' and kb == 'A'):
                # (not for two arcs: the circle-circle branch checks its own result against an absolute 1e-6 and, for
                # nearly tangent circles 5e6 away from the origin, fails that self-check from the conditioning of the
                # centres alone - an AssertionError, not a returned pair; observed once in the thorough tier)
                # the same figure far from the origin (1e4 .. 3e6 times its size away): nothing about an
                # intersection depends on where the origin is
                # (capped at 5e6 so that one ulp of a coordinate, 1e-9, stays far below the absolute 1e-6 the
                # library's own consistency assertions use: at 2e9 those fail from rounding alone)
                far = min(scale * 10.0 ** rng.uniform(4, 6.5), 5e6) * cmath.exp(1j * rng.uniform(0, 2 * math.pi))
                sa, sb = I.shift_spec(sa, far), I.shift_spec(sb, far)
                cls.append('far-from-origin')
            yield {'kind': 'pair', 'a': sa, 'b': sb, 'cls': cls}
        elif cfg == 'tangent':
            sa = I.rand_seg_spec(rng, ka, scale, 0j, simple)
            A = gen.seg(sa)
            tA = rng.uniform(0.1, 0.9)
            with monitor.suspended():
                pA, tg = complex(A.point(tA)), I.tangent(A, tA)
            if abs(tg) == 0:
                continue
            v = tg / abs(tg) * scale * rng.uniform(0.2, 2)
            sb = ['L', [(pA - v).real, (pA - v).imag], [(pA + v).real, (pA + v).imag]]
            if rng.random() < 0.5:
                sa, sb = sb, sa
            yield {'kind': 'pair', 'a': sa, 'b': sb, 'cls': ['cfg:tangent', 'pair:%sL' % ka]}
        elif cfg == 'random':
            sa = I.rand_seg_spec(rng, ka, scale, 0j, simple)
            sb = I.rand_seg_spec(rng, kb, scale, gen.scaled_point(rng, scale * 0.5), simple)
            yield {'kind': 'pair', 'a': sa, 'b': sb, 'cls': ['cfg:random', 'pair:%s%s' % (ka, kb)]}
        elif cfg == 'ellipse-axis-line':
            # an exactly vertical or horizontal line through an unrotated (0 / 90 / 180 degrees) elliptical arc
            c = gen.scaled_point(rng, scale)
            rx, ry = scale * rng.uniform(0.3, 2), scale * rng.uniform(0.3, 2)
            rot = rng.choice([0, 0, 0.0, 90, 180, -90])
            a0 = rng.uniform(0, 2 * math.pi)
            a1 = a0 + rng.uniform(0.5, 1.9) * math.pi
            w = cmath.exp(1j * math.radians(rot))

            def on(th):
                return c + w * complex(rx * math.cos(th), ry * math.sin(th))
            st, en = on(a0), on(a1)
            sa = ['A', [st.real, st.imag], [rx, ry], rot, (a1 - a0) > math.pi, True, [en.real, en.imag]]
            mid = on(rng.uniform(a0, a1))
            ext = 3 * max(rx, ry)
            if rng.random() < 0.5:
                sb = ['L', [mid.real, c.imag - ext], [mid.real, c.imag + ext]]
            else:
                sb = ['L', [c.real - ext, mid.imag], [c.real + ext, mid.imag]]
            if rng.random() < 0.5:
                sb = ['L', sb[2], sb[1]]
            if rng.random() < 0.5:
                sa, sb = sb, sa
            yield {'kind': 'pair', 'a': sa, 'b': sb, 'cls': ['cfg:ellipse-axis-line', 'pair:AL']}
        elif cfg == 'axis-aligned':
            # straight "curves" with collinear control points, as editors emit for straight C/Q commands
            x0, y0 = rng.uniform(-scale, scale), rng.uniform(-scale, scale)
            L = scale * rng.uniform(0.5, 2)
            th = sorted(rng.uniform(0, 1) for _ in range(2))
            ha = [complex(x0 + L * t, y0) for t in (0, th[0], th[1], 1)]
            xv = x0 + L * rng.uniform(0.1, 0.9)
            tv = sorted(rng.uniform(0, 1) for _ in range(2))
            va = [complex(xv, y0 - L / 2 + L * t) for t in (0, tv[0], tv[1], 1)]
            sa = ['C'] + [[z.real, z.imag] for z in ha]
            sb = rng.choice([['C'] + [[z.real, z.imag] for z in va],
                             ['Q'] + [[z.real, z.imag] for z in (va[0], va[1], va[3])],
                             ['L', [va[0].real, va[0].imag], [va[3].real, va[3].imag]]])
            if rng.random() < 0.5:
                sa, sb = sb, sa
            yield {'kind': 'pair', 'a': sa, 'b': sb, 'cls': ['cfg:axis-aligned']}
        else:
            k1 = [rng.choice('LQCA') for _ in range(rng.randint(2, 5))]
            k2 = [rng.choice('LQC') for _ in range(rng.randint(2, 5))]
            p1 = gen.rand_path_specs(rng, k1, 'rand', rng.choice(['open', 'line']))
            p2 = gen.rand_path_specs(rng, k2, 'rand', rng.choice(['open', 'line']))
            if any(s[0] == 'A' and (s[1] == s[-1] or s[2][0] != s[2][1] or s[3] % 180 != 0) for s in p1 + p2):
                # keep arcs in paths circular/unrotated or drop them: general arcs may raise inside Path.intersect
                p1 = [s for s in p1 if s[0] != 'A'] or p2
            if any(s[0] == 'L' and s[1] == s[2] for s in p1 + p2) or p1 == p2 or not p1:
                continue
            yield {'kind': 'paths', 'p1': p1, 'p2': p2, 'cls': ['cfg:paths']}


def run_case(ctx, case):
    ctx.branch(case['cls'][0])
    if 'far-from-origin' in case['cls']:
        ctx.branch('far-from-origin')
    if case['kind'] == 'pair':
        a, b = gen.seg(case['a']), gen.seg(case['b'])
        if a == b:
            raise core.Skip('equal segments')
        try:
            a.intersect(b)
        except Exception:
            pass          # judged by the exception observer
    else:
        import svgpathtools.path as P
        p1, p2 = gen.path(case['p1']), gen.path(case['p2'])
        if p1 == p2:
            raise core.Skip('equal paths')
        try:
            first = p1.intersect(p2)
            # the same query after an edit that keeps the number of segments (T1/T2 must follow the new
            # length fractions): replace a curved segment by its chord, or move the path's start
            k = next((i for i, s in enumerate(p1) if type(s).__name__ != 'Line'), None)
            if k is not None:
                p1[k] = P.Line(p1[k].start, p1[k].end)
            else:
                p1[0] = P.Line(p1[0].start - (p1[0].end - p1[0].start) * 3, p1[0].end)
            second = p1.intersect(p2)
            if first and second:
                ctx.branch('paths:requery-after-edit')
            # ... and after moving an end of either path through the Path's own start/end setters (same segment
            # objects, same count, other length fractions); p2 is the edited operand every other time
            q, other = (p1, p2) if len(p1) % 2 else (p2, p1)
            if len(q) >= 2:
                if type(q[0]).__name__ != 'Arc':
                    q.start = q[0].start - (q[0].end - q[0].start) * 2 - (q[0].end - q[0].start) * 0.5j
                elif type(q[-1]).__name__ != 'Arc':
                    q.end = q[-1].end + (q[-1].end - q[-1].start) * 2 + (q[-1].end - q[-1].start) * 0.5j
                third = p1.intersect(p2)
                if third:
                    ctx.branch('paths:requery-after-endpoint-assignment')
        except Exception as e:   # noqa
            if any(type(s).__name__ == 'Arc' for s in list(p1) + list(p2)):
                ctx.note('path_intersect_with_arcs_raised')
            else:
                raise


def crash_key(ctx, case, e, site):
    return 'crash/%s@%s/%s' % (type(e).__name__, site, case['cls'][0])


REGISTER = True
TECHNIQUE = 'runtime monitors on every intersect/bezier_intersections/bezier_by_line_intersections/Path.intersect call: in-range, point coincidence at the reported parameters, crossing-level swap symmetry, T/t coherence and segment membership'
LEVEL_TEXT = ('Whatever any intersection routine returns during the workload is judged: parameters in [0,1], the two curves\' own points at '
              'those parameters coincide within 1e-5 of the size (1e-3 with an arc), the swapped call reports the same crossings (as points; '
              'parameters too where the crossing is transversal), Path.intersect results satisfy path1.point(T1) = seg1.point(t1) = '
              'seg2.point(t2) = path2.point(T2) with seg1/seg2 members by identity. All 16 type pairs x 7 configurations + path pairs.')
LEVEL_NOTE = 'Soundness only (completeness is C12); general arc-arc pairs may raise; overlapping (coincident) curves are not generated.'
