"""C16 - Observations after any mutation history equal those of a freshly built object.

History + executable model.  The sequential model of a Path is a plain Python list of
segment identities with MutableSequence semantics (including which operations raise and that
a raising operation leaves the list unchanged).  Monitors on every query method (length,
point, T2t, t2T, bbox, d, start, end, iscontinuous, isclosed) build a *fresh twin* - a newly
constructed Path of the current segments, Bezier segments rebuilt from their current defining
fields - run the same query on it (monitors suspended) and compare; the driver enumerates
mutation/query histories exhaustively to a bounded depth and samples longer ones.
Segment level: histories over control-point assignment, length with various error/min_depth,
reversed() twins, against a freshly constructed segment.  Equality/hash: a == b => hash equal
over a palette of differently built but equal objects.
"""
import itertools
import math
import random

import numpy as np

from .. import core, gen, monitor

PROP = 'C16'
CONFIGS = ['scipy', 'noscipy']
DECIDING = ['Path.length', 'Path.point', 'Path.T2t', 'Path.bbox', 'Path.d', 'Path.start', 'Path.end']
ANCHORED = ['Path.__setitem__', 'Path.__delitem__', 'Path.insert', 'Path.start', 'Path.end', 'Path._calc_lengths',
            'CubicBezier.length', 'CubicBezier.reversed', 'QuadraticBezier.length', 'QuadraticBezier.reversed',
            'Arc.length', '__eq__', '__hash__']
RULE = ('cases = (a) histories over an alphabet of 21 concrete mutations and 9 concrete queries applied to 3 initial paths, enumerated '
        'exhaustively up to the tier\'s depth and sampled beyond (length 5..40); (b) segment histories over control-point assignment / '
        'length with other error and min_depth / reversed() twins; (c) all pairs of an equal-objects palette for a == b => hash(a) == '
        'hash(b); both scipy configurations; distinct by (config, initial path, operation sequence); non-trivial if a twin comparison '
        'or model comparison was made')
RULE += '; negative-index inserts, a -1/-2 (equal-hash) control-point pair, a very loose length query'
ASSUMPTIONS = ['a mutated Arc\'s own derived parameters are outside the statement: arcs are carried into the twin as they are',
               'floats are compared to 1e-12 relative (same code, same inputs => same bits unless a cache interferes)']
TIERS = {
    'quick': {'shards': 10, 'shards_alt': 4, 'depth': 3, 'depth_alt': 2, 'random': 3000, 'random_alt': 400, 'timeout': 900,
              'min_cases': 20000, 'exhaustive': True,
              'require_branches': ['model:op-raised', 'state:length-cached-then-mutated', 'seg:reversed-twin', 'seg:hash-collision-pair',
                                   'palette:pairs-compared', 'config:noscipy', 'config:scipy']},
    'thorough': {'shards': 10, 'shards_alt': 4, 'depth': 4, 'depth_alt': 3, 'random': 60000, 'random_alt': 4000,
                 'timeout': 3400, 'min_cases': 500000, 'exhaustive': True,
                 'require_branches': ['model:op-raised', 'state:length-cached-then-mutated', 'seg:reversed-twin', 'seg:hash-collision-pair',
                                      'palette:pairs-compared', 'config:noscipy', 'config:scipy']},
}
CASE_TIMEOUT = 60
STATES = set()


# --------------------------------------------------------------------------
# twin machinery

def clone(s):
    n = type(s).__name__
    if n == 'Arc':
        return s
    return type(s)(*s.bpoints())


def fresh_twin(p):
    import svgpathtools.path as P
    return P.Path(*[clone(s) for s in list.__iter__(p._segments)])


def same(a, b):
    if isinstance(a, (tuple, list)) and isinstance(b, (tuple, list)):
        return len(a) == len(b) and all(same(x, y) for x, y in zip(a, b))
    if isinstance(a, (float, complex, np.floating, np.complexfloating, int)) and \
            isinstance(b, (float, complex, np.floating, np.complexfloating, int)):
        a, b = complex(a), complex(b)
        if a != a and b != b:
            return True
        return abs(a - b) <= 1e-12 * max(abs(a), abs(b)) + 1e-300
    return a == b


def _run(f):
    try:
        return ('ok', f())
    except Exception as e:   # noqa
        return ('exc', type(e).__name__)


def twin_post(name, runner):
    """post/exception monitor comparing a query on the real path with the same query on a fresh twin"""
    def compare(call, got):
        ctx = core.CTX
        if call.depth > 0:
            return False
        p = call.args[0]
        try:
            tw = fresh_twin(p)
        except Exception:
            return False
        want = _run(lambda: runner(tw, call))
        ctx.verdict()
        ok = got[0] == want[0] and same(got[1], want[1])
        if not ok and name == 'length' and got[0] == want[0] == 'ok' and \
                ('error' in call.kwargs or 'min_depth' in call.kwargs or len(call.args) > 3):
            # a length asked for with explicit (looser) error/min_depth may be answered from a cache that is MORE
            # accurate than requested: accept an answer that is at least as close to the precise value as the fresh one
            try:
                precise = float(fresh_twin(p).length(*call.args[1:3]))
                ok = abs(float(got[1]) - precise) <= abs(float(want[1]) - precise) + 1e-12 * abs(precise)
            except Exception:
                ok = False
        if not ok:
            hist = (ctx.current or {}).get('ops')
            ctx.violation('stale/%s/%s' % (name, _stale_class(p)),
                          '%s on the mutated path differs from the same query on a freshly built path' % name,
                          {'got': repr(got)[:160], 'fresh': repr(want)[:160], 'history': hist})
        return True

    def post(call):
        return compare(call, ('ok', call.ret))

    def on_exc(call):
        return compare(call, ('exc', type(call.exc).__name__))
    return post, on_exc


def _stale_class(p):
    """which cached field disagrees with the segments (mechanism key of a staleness finding)"""
    out = []
    segs = p._segments
    if segs:
        if p._start is not None and p._start != segs[0].start:
            out.append('_start')
        if p._end is not None and p._end != segs[-1].end:
            out.append('_end')
    if p._length is not None:
        with monitor.suspended():
            try:
                L = sum(s.length() for s in segs)
                if abs(L - p._length) > 1e-9 * max(L, 1e-300):
                    out.append('_length')
            except Exception:
                out.append('_length?')
    return '+'.join(out) or 'no-stale-path-field'


def install(ctx):
    import svgpathtools.path as P
    kw = lambda call: {k: v for k, v in call.kwargs.items()}   # noqa
    spec = {
        'length': lambda tw, call: tw.length(*call.args[1:], **kw(call)),
        'point': lambda tw, call: tw.point(*call.args[1:], **kw(call)),
        'T2t': lambda tw, call: tw.T2t(*call.args[1:], **kw(call)),
        'bbox': lambda tw, call: tw.bbox(),
        'd': lambda tw, call: tw.d(*call.args[1:], **kw(call)),
        'iscontinuous': lambda tw, call: tw.iscontinuous(),
        'isclosed': lambda tw, call: tw.isclosed(),
    }
    for name, runner in spec.items():
        post, on_exc = twin_post(name, runner)
        monitor.install(P.Path, name, post=post, on_exc=on_exc)
    post, on_exc = twin_post('start', lambda tw, call: tw.start)
    monitor.install(P.Path, 'start', post=post, on_exc=on_exc)
    post, on_exc = twin_post('end', lambda tw, call: tw.end)
    monitor.install(P.Path, 'end', post=post, on_exc=on_exc)


# --------------------------------------------------------------------------
# alphabet (concrete operations; X, Y are fresh palette segments built per history)

def _palette():
    from svgpathtools import Line, CubicBezier, QuadraticBezier
    return {'X': Line(10 + 1j, 12 + 4j), 'Y': CubicBezier(12 + 4j, 13 + 7j, 9 + 8j, 8 + 5j),
            'Z': QuadraticBezier(-3 - 1j, -5 + 2j, -2 + 4j)}


MUTATIONS = ['set0X', 'set-1Y', 'set5X', 'slice02XY', 'slice02empty', 'slice11Z', 'sliceAllEmpty', 'del0', 'del-1',
             'del7', 'ins0X', 'ins1Z', 'ins-1Z', 'ins-9X', 'appendY', 'extendXZ', 'pop', 'pop0', 'reverse', 'iaddX', 'start=', 'end=',
             'remove0', 'clear']
QUERIES = ['length', 'length_loose', 'length_loosest', 'length_part', 'point', 'T2t', 'ends', 'bbox', 'd', 'eqhash']
ALPHABET = MUTATIONS + QUERIES


def apply_mutation(p, model, op, pal):
    """applies op to the real path; returns the model's prediction (new list | exception type name)"""
    X, Y, Z = pal['X'], pal['Y'], pal['Z']
    m = list(model)

    def both(real, mod):
        try:
            mod(m)
            pred = ('ok', m)
        except Exception as e:   # noqa
            pred = ('exc', type(e).__name__)
        try:
            real()
            got = ('ok', None)
        except Exception as e:   # noqa
            got = ('exc', type(e).__name__)
        return pred, got
    if op == 'set0X':
        return both(lambda: p.__setitem__(0, X), lambda l: l.__setitem__(0, X))
    if op == 'set-1Y':
        return both(lambda: p.__setitem__(-1, Y), lambda l: l.__setitem__(-1, Y))
    if op == 'set5X':
        return both(lambda: p.__setitem__(5, X), lambda l: l.__setitem__(5, X))
    if op == 'slice02XY':
        return both(lambda: p.__setitem__(slice(0, 2), [X, Y]), lambda l: l.__setitem__(slice(0, 2), [X, Y]))
    if op == 'slice02empty':
        return both(lambda: p.__setitem__(slice(0, 2), []), lambda l: l.__setitem__(slice(0, 2), []))
    if op == 'slice11Z':
        return both(lambda: p.__setitem__(slice(1, 1), [Z]), lambda l: l.__setitem__(slice(1, 1), [Z]))
    if op == 'sliceAllEmpty':
        return both(lambda: p.__setitem__(slice(None), []), lambda l: l.__setitem__(slice(None), []))
    if op == 'del0':
        return both(lambda: p.__delitem__(0), lambda l: l.__delitem__(0))
    if op == 'del-1':
        return both(lambda: p.__delitem__(-1), lambda l: l.__delitem__(-1))
    if op == 'del7':
        return both(lambda: p.__delitem__(7), lambda l: l.__delitem__(7))
    if op == 'ins0X':
        return both(lambda: p.insert(0, X), lambda l: l.insert(0, X))
    if op == 'ins1Z':
        return both(lambda: p.insert(1, Z), lambda l: l.insert(1, Z))
    if op == 'ins-1Z':
        return both(lambda: p.insert(-1, Z), lambda l: l.insert(-1, Z))
    if op == 'ins-9X':
        return both(lambda: p.insert(-9, X), lambda l: l.insert(-9, X))      # a list clamps: lands in front
    if op == 'appendY':
        return both(lambda: p.append(Y), lambda l: l.append(Y))
    if op == 'extendXZ':
        return both(lambda: p.extend([X, Z]), lambda l: l.extend([X, Z]))
    if op == 'pop':
        return both(lambda: p.pop(), lambda l: l.pop())
    if op == 'pop0':
        return both(lambda: p.pop(0), lambda l: l.pop(0))
    if op == 'reverse':
        return both(lambda: p.reverse(), lambda l: l.reverse())
    if op == 'iaddX':
        return both(lambda: p.__iadd__([X]), lambda l: l.__iadd__([X]))
    if op == 'remove0':
        def rm(l):
            if not l:
                raise IndexError
            l.remove(l[0])

        def rr():
            p.remove(p[0])
        return both(rr, rm)
    if op == 'clear':
        return both(lambda: p.clear(), lambda l: l.clear())
    if op == 'start=':
        def setstart():
            p.start = -5 + 1j

        def mod(l):
            if l:
                l[0].__dict__['_vt_pending_start'] = True
        return both(setstart, mod)
    if op == 'end=':
        def setend():
            p.end = 7 - 3j
        return both(setend, lambda l: None)
    raise ValueError(op)


def run_query(ctx, p, q):
    """executes the query through the real (monitored) interface; the monitors do the twin comparison"""
    def safe(f):
        try:
            return f()
        except Exception:
            return None
    if q == 'length':
        safe(lambda: p.length())
    elif q == 'length_loose':
        safe(lambda: p.length(error=1e-3, min_depth=1))
    elif q == 'length_loosest':
        safe(lambda: p.length(error=0.5, min_depth=0))
    elif q == 'length_part':
        safe(lambda: p.length(0.2, 0.7))
    elif q == 'point':
        safe(lambda: p.point(0.35))
    elif q == 'T2t':
        safe(lambda: p.T2t(0.6))
    elif q == 'ends':
        safe(lambda: p.start)
        safe(lambda: p.end)
    elif q == 'bbox':
        safe(lambda: p.bbox())
    elif q == 'd':
        safe(lambda: p.d())
        if safe(lambda: p.iscontinuous()):
            safe(lambda: p.isclosed())
    elif q == 'eqhash':
        with monitor.suspended():
            tw = fresh_twin(p)
            ctx.verdict()
            if not (p == tw) or (p != tw):
                ctx.violation('eq/path-vs-fresh', 'a mutated path does not compare equal to a fresh path of its segments',
                              {'history': (ctx.current or {}).get('ops')})
            elif p._closed == tw._closed and hash(p) != hash(tw):
                ctx.violation('hash/path-vs-fresh', 'equal paths (mutated vs fresh) have different hashes',
                              {'history': (ctx.current or {}).get('ops')})
            if len(p) != len(list(p)):
                ctx.violation('len-vs-iter', 'len(path) differs from the number of iterated segments')


def abstract_state(p):
    segs = p._segments
    return (min(len(segs), 4), p._length is not None,
            bool(segs) and p._start == segs[0].start, bool(segs) and p._end == segs[-1].end,
            p._lengths is not None and len(p._lengths or ()) == len(segs))


def initial(which):
    from svgpathtools import Path, Line, CubicBezier, Arc, QuadraticBezier
    if which == 0:
        return Path(Line(0j, 2 + 0j))
    if which == 1:
        return Path(Line(0j, 2 + 0j), Arc(2 + 0j, 1 + 1j, 0, False, True, 4 + 0j),
                    CubicBezier(4 + 0j, 5 + 2j, 6 - 1j, 7 + 1j))
    return Path(Line(0j, 2 + 0j), QuadraticBezier(2 + 0j, 3 + 1j, 2 + 2j), Line(2 + 2j, 0j))


def run_history(ctx, init, ops):
    p = initial(init)
    model = list(p._segments)
    pal = _palette()
    cached_before = False
    for op in ops:
        STATES.add(abstract_state(p))
        if op in ('start=', 'end=') and len(p._segments) == 0:
            continue          # there is no segment whose end point could be assigned
        if op in MUTATIONS:
            if p._length is not None:
                cached_before = True
                ctx.branch('state:length-cached-then-mutated')
            before = list(p._segments)
            pred, got = apply_mutation(p, model, op, pal)
            ctx.verdict()
            if pred[0] == 'exc':
                ctx.branch('model:op-raised')
            if pred[0] != got[0]:
                ctx.violation('model/%s/%s' % (op, 'raised-%s' % got[1] if got[0] == 'exc' else 'did-not-raise'),
                              'operation %s: the path %s but a list %s' % (
                                  op, 'raised ' + str(got[1]) if got[0] == 'exc' else 'returned',
                                  'raises ' + str(pred[1]) if pred[0] == 'exc' else 'returns'),
                              {'history': ops, 'initial': init})
                # continue with whatever the real object now holds
                model = list(p._segments)
                continue
            if pred[0] == 'ok':
                model = pred[1]
            else:
                model = before
            now = list(p._segments)
            if len(now) != len(model) or any(a is not b for a, b in zip(now, model)):
                ctx.violation('model/%s/content' % op,
                              'after %s the path does not hold the segments a list would hold%s' % (
                                  op, ' (the operation raised but changed the path)' if pred[0] == 'exc' else ''),
                              {'history': ops, 'initial': init, 'have': len(now), 'model': len(model)})
                model = now
        else:
            run_query(ctx, p, op)
    STATES.add(abstract_state(p))


# --------------------------------------------------------------------------
# segment-level histories

SEG_OPS = ['set_start', 'set_ctrl', 'set_end', 'len', 'len_loose', 'len_depth1', 'len_part', 'point', 'bbox', 'eqhash', 'poly', 'points',
           'derivative', 'tangent', 'hash_collision',
           'reversed_then_mutate_original', 'reversed_then_mutate_copy', 'reversed_query']


def fresh_seg(s):
    return type(s)(*s.bpoints())


def seg_compare(ctx, s, what, f, ops):
    got = _run(lambda: f(s))
    with monitor.suspended():
        want = _run(lambda: f(fresh_seg(s)))
    ctx.verdict()
    ok = got[0] == want[0] and same(got[1], want[1])
    if not ok and ('error=1e-3' in what or 'min_depth=1' in what) and got[0] == want[0] == 'ok':
        # a cached value that is MORE accurate than requested satisfies a looser request
        with monitor.suspended():
            precise = float(fresh_seg(s).length())
        ok = abs(float(got[1]) - precise) <= abs(float(want[1]) - precise) + 1e-12 * abs(precise)
    if not ok:
        ctx.violation('stale-segment/%s/%s' % (type(s).__name__, what),
                      '%s on a mutated/previously queried segment differs from a freshly constructed one' % what,
                      {'got': repr(got)[:120], 'fresh': repr(want)[:120], 'history': ops, 'config': ctx.config})


def run_seg_history(ctx, kind, ops, seed):
    from svgpathtools import Line, QuadraticBezier, CubicBezier
    rng = random.Random(seed)

    def pt():
        return complex(rng.randint(-9, 9), rng.randint(-9, 9)) + complex(rng.random(), rng.random()) * rng.choice([0, 1])
    s = {'L': lambda: Line(pt(), pt() + 20), 'Q': lambda: QuadraticBezier(pt(), pt(), pt() + 20),
         'C': lambda: CubicBezier(pt(), pt(), pt(), pt() + 20)}[kind]()
    others = []
    for op in ops:
        if op == 'set_start':
            s.start = pt()
        elif op == 'set_end':
            s.end = pt() + 20
        elif op == 'set_ctrl':
            if kind == 'Q':
                s.control = pt()
            elif kind == 'C':
                if rng.random() < 0.5:
                    s.control1 = pt()
                else:
                    s.control2 = pt()
        elif op == 'len':
            seg_compare(ctx, s, 'length()', lambda x: x.length(), ops)
        elif op == 'len_loose':
            seg_compare(ctx, s, 'length(error=1e-3)', lambda x: x.length(error=1e-3), ops)
        elif op == 'len_depth1':
            seg_compare(ctx, s, 'length(min_depth=1)', lambda x: x.length(min_depth=1), ops)
        elif op == 'len_part':
            seg_compare(ctx, s, 'length(.2,.8)', lambda x: x.length(0.2, 0.8), ops)
        elif op == 'point':
            seg_compare(ctx, s, 'point(.3)', lambda x: x.point(0.3), ops)
        elif op == 'bbox':
            seg_compare(ctx, s, 'bbox()', lambda x: x.bbox(), ops)
        elif op == 'poly':
            seg_compare(ctx, s, 'poly() coefficients', lambda x: [complex(c) for c in x.poly(return_coeffs=True)], ops)
            seg_compare(ctx, s, 'poly()(.3)', lambda x: complex(x.poly()(0.3)), ops)
        elif op == 'points':
            seg_compare(ctx, s, 'points([.2,.7])', lambda x: [complex(z) for z in x.points([0.2, 0.7])], ops)
        elif op == 'derivative':
            seg_compare(ctx, s, 'derivative(.4)', lambda x: complex(x.derivative(0.4)), ops)
        elif op == 'tangent':
            seg_compare(ctx, s, 'unit_tangent(.6)', lambda x: complex(x.unit_tangent(0.6)), ops)
        elif op == 'hash_collision':
            # CPython: hash(-1) == hash(-2), so tuples of control points differing only in -1 / -2 collide;
            # a cache keyed by hash instead of by value cannot tell the two curves apart
            ctx.branch('seg:hash-collision-pair')
            y = float(rng.randint(-5, 5))
            which = rng.choice(['start', 'control', 'control1', 'control2'])
            if not hasattr(s, which):
                which = 'start'
            setattr(s, which, complex(-1.0, y))
            seg_compare(ctx, s, 'length()', lambda x: x.length(), ops)
            assert hash(complex(-1.0, y)) == hash(complex(-2.0, y))
            setattr(s, which, complex(-2.0, y))
            seg_compare(ctx, s, 'length() after -1 -> -2', lambda x: x.length(), ops)
            seg_compare(ctx, s, 'reversed().length() after -1 -> -2', lambda x: x.reversed().length(), ops)
        elif op == 'eqhash':
            f = fresh_seg(s)
            ctx.verdict()
            if not (s == f) or hash(s) != hash(f):
                ctx.violation('eq-hash/segment/%s' % type(s).__name__,
                              'a mutated segment and a fresh one with the same control points are not equal / hash differently',
                              {'history': ops})
        elif op.startswith('reversed'):
            ctx.branch('seg:reversed-twin')
            r = s.reversed()
            others.append(r)
            if op == 'reversed_then_mutate_original':
                s.start = pt()
            elif op == 'reversed_then_mutate_copy':
                r.start = pt()
            seg_compare(ctx, r, 'reversed().length()', lambda x: x.length(), ops)
            seg_compare(ctx, s, 'length() after reversed()', lambda x: x.length(), ops)
    for r in others:
        seg_compare(ctx, r, 'earlier reversed().length()', lambda x: x.length(), ops)


# --------------------------------------------------------------------------
# equality / hash palette

def palette_case(ctx):
    from svgpathtools import Path, Line, CubicBezier, QuadraticBezier, Arc, parse_path
    import numpy as np
    groups = []
    tri = [Line(0j, 1 + 0j), Line(1 + 0j, 1 + 1j), Line(1 + 1j, 0j)]
    groups.append(('triangle', [
        ('constructed', Path(*tri)),
        ('parsed-with-Z', parse_path('M0,0 L1,0 L1,1 Z')),
        ('parsed-without-Z', parse_path('M0,0 L1,0 L1,1 L0,0')),
        ('int-coordinates', Path(Line(0, 1), Line(1, 1 + 1j), Line(1 + 1j, 0))),
        ('numpy-coordinates', Path(Line(np.complex128(0), np.complex128(1)), Line(np.complex128(1), np.complex128(1 + 1j)),
                                   Line(np.complex128(1 + 1j), np.complex128(0)))),
        ('reparsed-d', parse_path(Path(*tri).d())),
        ('reparsed-d-closed', parse_path(Path(*tri).d(use_closed_attrib=True))),
    ]))
    cub = CubicBezier(0j, 1 + 2j, 3 + 2j, 4 + 0j)
    groups.append(('cubic', [
        ('constructed', cub), ('from-ints', CubicBezier(0, 1 + 2j, 3 + 2j, 4)),
        ('numpy', CubicBezier(np.complex128(0), np.complex128(1 + 2j), np.complex128(3 + 2j), np.complex128(4))),
        ('parsed', parse_path('M0,0 C1,2 3,2 4,0')[0]), ('reversed-twice', cub.reversed().reversed()),
    ]))
    arc = Arc(0j, 2 + 1j, 30, False, True, 3 + 1j)
    groups.append(('arc', [
        ('constructed', arc), ('int-flags', Arc(0j, 2 + 1j, 30, 0, 1, 3 + 1j)), ('float-rotation', Arc(0, 2 + 1j, 30.0, False, True, 3 + 1j)),
        ('parsed', parse_path('M0,0 A2,1 30 0,1 3,1')[0]), ('reversed-twice', arc.reversed().reversed()),
        ('other-sweep', Arc(0j, 2 + 1j, 30, False, False, 3 + 1j)),
    ]))
    q = QuadraticBezier(1j, 2 + 3j, 4 + 0j)
    groups.append(('quad', [('constructed', q), ('parsed', parse_path('M0,1 Q2,3 4,0')[0]), ('int', QuadraticBezier(1j, 2 + 3j, 4))]))
    # variants differing in exactly one defining field: if == calls them equal, the hashes must agree too
    groups[1][1].extend([('other-control1', CubicBezier(0j, 1 + 2.5j, 3 + 2j, 4 + 0j)), ('other-control2', CubicBezier(0j, 1 + 2j, 3 + 2.5j, 4 + 0j)),
                         ('other-start', CubicBezier(0.5j, 1 + 2j, 3 + 2j, 4 + 0j)), ('other-end', CubicBezier(0j, 1 + 2j, 3 + 2j, 4 + 1j))])
    groups[2][1].extend([('other-radius', Arc(0j, 2 + 1.5j, 30, False, True, 3 + 1j)), ('other-rotation', Arc(0j, 2 + 1j, 31, False, True, 3 + 1j)),
                         ('other-large-arc', Arc(0j, 2 + 1j, 30, True, True, 3 + 1j)), ('other-end', Arc(0j, 2 + 1j, 30, False, True, 3 + 2j))])
    groups[3][1].extend([('other-control', QuadraticBezier(1j, 2 + 3.5j, 4 + 0j)), ('other-start', QuadraticBezier(2j, 2 + 3j, 4 + 0j)),
                         ('other-end', QuadraticBezier(1j, 2 + 3j, 5 + 0j))])
    groups.append(('line', [('constructed', Line(1j, 2 + 0j)), ('int', Line(1j, 2)), ('other-end', Line(1j, 3 + 0j)),
                            ('other-start', Line(2j, 2 + 0j)), ('parsed', parse_path('M0,1 L2,0')[0])]))
    groups[0][1].extend([('other-last-segment', Path(tri[0], tri[1], Line(1 + 1j, 0.5j))),
                         ('shorter', Path(tri[0], tri[1]))])
    for gname, items in groups:
        for (na, a), (nb, b) in itertools.combinations(items, 2):
            ctx.verdict()
            ctx.branch('palette:pairs-compared')
            try:
                eq = (a == b)
            except Exception:
                continue
            if eq and hash(a) != hash(b):
                ca = getattr(a, '_closed', None)
                cb = getattr(b, '_closed', None)
                mech = 'closed-flag-differs' if (ca is not None and ca != cb) else 'same-flags'
                ctx.violation('eq-hash/%s/%s' % (type(a).__name__, mech),
                              'objects that compare equal have different hashes (%s: %s vs %s)' % (gname, na, nb),
                              {'a': na, 'b': nb, 'group': gname})


# --------------------------------------------------------------------------
def cases(ctx):
    rng = ctx.rng
    plan = TIERS[ctx.tier]
    alt = ctx.config != CONFIGS[0]
    depth = plan['depth_alt'] if alt else plan['depth']
    idx = 0
    if ctx.shard == 0:
        yield {'kind': 'palette', 'cls': ['palette']}
    for init in range(3):
        for L in range(1, depth + 1):
            for ops in itertools.product(range(len(ALPHABET)), repeat=L):
                idx += 1
                if idx % ctx.nshards != ctx.shard:
                    continue
                # a history made of queries only after the first position adds nothing new beyond depth 1
                if L > 1 and all(ALPHABET[o] in QUERIES for o in ops):
                    continue
                yield {'kind': 'hist', 'init': init, 'ops': [ALPHABET[o] for o in ops], 'cls': ['exhaustive', 'len:%d' % L]}
    n = (plan['random_alt'] if alt else plan['random']) // ctx.nshards
    for i in range(n):
        if rng.random() < 0.5:
            L = rng.randint(depth + 1, 40)
            yield {'kind': 'hist', 'init': rng.randrange(3), 'ops': [rng.choice(ALPHABET) for _ in range(L)],
                   'cls': ['random-history']}
        else:
            L = rng.randint(2, 12)
            yield {'kind': 'seg', 'seg': rng.choice('LQC'), 'ops': [rng.choice(SEG_OPS) for _ in range(L)],
                   'seed': rng.randrange(1 << 30), 'cls': ['segment-history']}


def run_case(ctx, case):
    ctx.branch('config:' + ctx.config)
    if case['kind'] == 'palette':
        palette_case(ctx)
    elif case['kind'] == 'hist':
        run_history(ctx, case['init'], case['ops'])
    else:
        run_seg_history(ctx, case['seg'], case['ops'], case['seed'])


def finish(ctx):
    ctx.note('distinct_abstract_states_(len,_length cached,_start ok,_end ok,_lengths ok)_in_shard', len(STATES))


def crash_key(ctx, case, e, site):
    return 'crash/%s@%s/%s' % (type(e).__name__, site, case['kind'])


REGISTER = True
TECHNIQUE = 'history + executable model: monitors on every Path query compare with a freshly built twin; the driver enumerates mutation/query histories exhaustively to a bounded depth against a list model (content, raising), plus segment-level histories and an equal-objects hash palette; both scipy configurations'
LEVEL_TEXT = ('All histories of length <= 3 (quick) / <= 4 (thorough) over 22 concrete mutations and 9 concrete queries from 3 initial paths are executed '
              'on the real Path; after every mutation the held segments are compared (by identity) with a list model, including which operations '
              'raise and that a raising operation changes nothing; every query is answered twice - by the mutated object and by a freshly constructed '
              'twin - and the answers must agree to 1e-12; random histories up to length 40, segment-level histories and an equality/hash palette on top.')
LEVEL_NOTE = 'Exhaustive only up to the stated depth and alphabet; arcs mutated through start=/end= are carried into the twin as they are (outside the statement).'
