"""Monitor installer: wraps real svgpathtools functions with oracles.

A monitor = (owner, attribute name, oracle).  ``install`` replaces the real
function by a wrapper that
  1. (optionally) snapshots state before the call (``pre``),
  2. calls the real function with monitors still active, so nested library
     calls are monitored too,
  3. runs the oracle on (arguments, result | exception) with *all monitors
     suspended* (oracles call library code for twins / re-parsing and must not
     recurse or inflate the event counts),
  4. returns the real result / re-raises the real exception unchanged.

Module-level functions are re-bound in *every* loaded svgpathtools module that
holds a reference to the original object (``from .bezier import ...`` copies,
the package ``__init__`` re-exports), so internal call sites are monitored as
well.  Methods are patched on the class.  Every monitor counts its evaluations;
the check turns "deciding monitor evaluated nothing" into INCONCLUSIVE.
"""
import functools
import inspect
import sys
import threading
import types


class _State(threading.local):
    def __init__(self):
        self.suspend = 0
        self.depth = 0


STATE = _State()


class suspended(object):
    """Context manager: run library code without triggering any monitor."""

    def __enter__(self):
        STATE.suspend += 1

    def __exit__(self, *a):
        STATE.suspend -= 1
        return False


class Call(object):
    """What an oracle sees of one monitored call."""
    __slots__ = ('name', 'args', 'kwargs', 'ret', 'exc', 'pre', 'depth', '_sig', '_a')

    def __init__(self, name, sig, args, kwargs, depth):
        self.name = name
        self._sig = sig
        self.args = args
        self.kwargs = kwargs
        self.ret = None
        self.exc = None
        self.pre = None
        self.depth = depth
        self._a = None

    @property
    def a(self):
        """bound arguments (defaults applied) as a dict"""
        if self._a is None:
            try:
                ba = self._sig.bind(*self.args, **self.kwargs)
                ba.apply_defaults()
                self._a = dict(ba.arguments)
            except TypeError:
                self._a = {}
        return self._a


class Monitor(object):
    def __init__(self, name, orig, post, pre=None, on_exc=None, stride=1, budget=None,
                 top_only=False):
        self.name = name
        self.orig = orig
        self.post = post
        self.pre = pre
        self.on_exc = on_exc
        self.stride = stride
        self.budget = budget
        self.top_only = top_only
        self.calls = 0          # calls seen (not suspended)
        self.evals = 0          # oracle evaluations that reached a verdict
        self.raised = 0         # calls in which the real function raised
        try:
            self.sig = inspect.signature(orig)
        except (TypeError, ValueError):
            self.sig = None


MONITORS = {}


def _oracle_failed(mon, e):
    import traceback
    from . import boot, core
    ctx = core.CTX
    if ctx is None:
        raise e
    site, in_repo = core.crash_site(e, boot.REPO)
    tb = ''.join(traceback.format_exception(type(e), e, e.__traceback__))[-1500:]
    if in_repo:
        ctx.violation('oracle-call-raised/%s/%s@%s' % (mon.name, type(e).__name__, site),
                      'the library raised %s under a (valid) call made by the oracle of %s: %s' % (
                          type(e).__name__, mon.name, str(e)[:120]), {'traceback': tb})
    else:
        ctx.errors.append({'case': ctx.current, 'traceback': 'oracle of %s: %s' % (mon.name, tb)})
_installed = []   # (owner, attr, original descriptor) for uninstall


def _reproducible(mon, e, args, kwargs):
    """LAPACK's "Eigenvalues did not converge" (numpy.linalg.LinAlgError out of np.roots) was observed once, on a
    heavily oversubscribed machine, for an input on which the same call returns normally in every repetition (DESIGN
    6.3): it is charged to the library only if the same call raises it again when repeated at once.  Only this
    exception type is treated so, and every function that can raise it (intersect, polyroots, radialrange, bbox,
    transform) is free of side effects, so that the repetition changes nothing."""
    if type(e).__name__ != 'LinAlgError':
        return True
    from . import core
    STATE.suspend += 1
    try:
        mon.orig(*args, **kwargs)
    except BaseException as e2:   # noqa
        return type(e2).__name__ != 'VTTimeout'
    finally:
        STATE.suspend -= 1
    if core.CTX is not None:
        core.CTX.note('unreproducible_LinAlgError_not_charged:%s' % mon.name)
    return False


def _make_wrapper(mon):
    orig = mon.orig

    @functools.wraps(orig)
    def wrapper(*args, **kwargs):
        if STATE.suspend:
            return orig(*args, **kwargs)
        mon.calls += 1
        n = mon.calls
        if (mon.stride > 1 and n % mon.stride) or \
                (mon.budget is not None and mon.evals >= mon.budget) or \
                (mon.top_only and STATE.depth):
            STATE.depth += 1
            try:
                return orig(*args, **kwargs)
            finally:
                STATE.depth -= 1
        call = Call(mon.name, mon.sig, args, kwargs, STATE.depth)
        if mon.pre is not None:
            STATE.suspend += 1
            try:
                call.pre = mon.pre(call)
            finally:
                STATE.suspend -= 1
        STATE.depth += 1
        try:
            ret = orig(*args, **kwargs)
        except BaseException as e:   # noqa
            STATE.depth -= 1
            mon.raised += 1
            call.exc = e
            if mon.on_exc is not None and not isinstance(e, (KeyboardInterrupt, SystemExit)) and \
                    type(e).__name__ != 'VTTimeout' and \
                    _reproducible(mon, e, args, kwargs):  # the harness's own watchdog is not the library raising
                STATE.suspend += 1
                try:
                    if mon.on_exc(call) is not False:
                        mon.evals += 1
                except Exception as oe:   # noqa  (the observer itself failed: see _oracle_failed)
                    _oracle_failed(mon, oe)
                finally:
                    STATE.suspend -= 1
            raise
        STATE.depth -= 1
        call.ret = ret
        STATE.suspend += 1
        try:
            if mon.post is not None and mon.post(call) is not False:
                mon.evals += 1
        except Exception as e:   # noqa
            # An oracle raised.  It must not travel up through the monitored caller (an enclosing monitor would
            # take it for the library raising in ITS function).  If the library raised under a call the oracle
            # made (oracles only make calls that are valid by the statements) that is reported under its own
            # key; anything else is a harness error (=> the run is inconclusive).
            _oracle_failed(mon, e)
        finally:
            STATE.suspend -= 1
        return ret

    wrapper.__vt_monitor__ = mon
    return wrapper


def _sp_modules():
    return [m for k, m in list(sys.modules.items())
            if m is not None and (k == 'svgpathtools' or k.startswith('svgpathtools.'))]


def install(owner, attr, post=None, pre=None, on_exc=None, name=None, stride=1,
            budget=None, top_only=False):
    """Wrap ``owner.attr`` (owner = module or class).  The oracle ``post(call)``
    may return False to say "no verdict reached" (not counted as an evaluation).
    """
    raw = owner.__dict__[attr] if isinstance(owner, type) else getattr(owner, attr)
    if name is None:
        name = '%s.%s' % (getattr(owner, '__name__', str(owner)).replace('svgpathtools.', ''), attr)
    if name in MONITORS:
        raise RuntimeError('monitor %s installed twice' % name)
    if isinstance(raw, property):
        mon = Monitor(name, raw.fget, post, pre, on_exc, stride, budget, top_only)
        new = property(_make_wrapper(mon), raw.fset, raw.fdel, raw.__doc__)
        setattr(owner, attr, new)
        _installed.append((owner, attr, raw, None))
    elif isinstance(owner, type):
        func = raw.__func__ if isinstance(raw, (staticmethod, classmethod)) else raw
        mon = Monitor(name, func, post, pre, on_exc, stride, budget, top_only)
        w = _make_wrapper(mon)
        if isinstance(raw, staticmethod):
            w = staticmethod(w)
        elif isinstance(raw, classmethod):
            w = classmethod(w)
        setattr(owner, attr, w)
        _installed.append((owner, attr, raw, None))
    else:
        mon = Monitor(name, raw, post, pre, on_exc, stride, budget, top_only)
        w = _make_wrapper(mon)
        rebinds = []
        for mod in _sp_modules():
            for k, v in list(vars(mod).items()):
                if v is raw:
                    setattr(mod, k, w)
                    rebinds.append((mod, k))
        if not rebinds:
            raise RuntimeError('no binding of %s found' % name)
        _installed.append((owner, attr, raw, rebinds))
    MONITORS[name] = mon
    return mon


def uninstall_all():
    while _installed:
        owner, attr, raw, rebinds = _installed.pop()
        if rebinds is None:
            setattr(owner, attr, raw)
        else:
            for mod, k in rebinds:
                setattr(mod, k, raw)
    MONITORS.clear()


def counts():
    return {n: {'calls': m.calls, 'evals': m.evals, 'raised': m.raised}
            for n, m in MONITORS.items()}


# --------------------------------------------------------------------------
# Reach recorder: first-hit line coverage of svgpathtools code via
# sys.monitoring (LINE events, DISABLE after the first hit => ~zero cost).

class Reach(object):
    def __init__(self, root):
        self.root = root
        self.hits = set()     # (file basename, qualname, lineno)
        self.on = False

    def start(self):
        mon = sys.monitoring
        self.tool = mon.PROFILER_ID
        try:
            mon.use_tool_id(self.tool, 'vt-reach')
        except ValueError:
            return
        root = self.root
        hits = self.hits
        DISABLE = mon.DISABLE

        def on_line(code, lineno):
            fn = code.co_filename
            if fn.startswith(root):
                hits.add((fn[len(root):].lstrip('/'), code.co_qualname, lineno))
            return DISABLE

        mon.register_callback(self.tool, mon.events.LINE, on_line)
        mon.set_events(self.tool, mon.events.LINE)
        self.on = True

    def stop(self):
        if self.on:
            mon = sys.monitoring
            mon.set_events(self.tool, 0)
            mon.register_callback(self.tool, mon.events.LINE, None)
            mon.free_tool_id(self.tool)
            self.on = False

    def by_function(self):
        out = {}
        for f, q, l in self.hits:
            out.setdefault('%s:%s' % (f, q), set()).add(l)
        return {k: sorted(v) for k, v in out.items()}
