"""Symbolic-value execution support.

The real functions are executed once on ring elements (sympy symbols) instead
of floats; because the anchored functions contain no value-dependent branch,
that single execution stands for all values.  The premise is itself monitored:
``LineTrace`` records the set of source lines a call executes inside given
functions; float runs are sampled and compared with the symbolic run's set.
"""
import sys


class LineTrace(object):
    """records (qualname, lineno) of every executed line in the given code objects"""
    TOOL = 4

    def __init__(self, funcs):
        self.codes = []
        for f in funcs:
            f = getattr(f, '__wrapped__', f)
            f = getattr(f, '__func__', f)
            if hasattr(f, 'fget'):
                f = f.fget
            self.codes.append(f.__code__)
        self.lines = set()

    def __enter__(self):
        mon = sys.monitoring
        mon.use_tool_id(self.TOOL, 'vt-linetrace')
        lines = self.lines

        def on_line(code, lineno):
            lines.add((code.co_qualname, lineno))

        mon.register_callback(self.TOOL, mon.events.LINE, on_line)
        for c in self.codes:
            mon.set_local_events(self.TOOL, c, mon.events.LINE)
        return self

    def __exit__(self, *a):
        mon = sys.monitoring
        for c in self.codes:
            mon.set_local_events(self.TOOL, c, 0)
        mon.register_callback(self.TOOL, mon.events.LINE, None)
        mon.free_tool_id(self.TOOL)
        return False


def unwrap(f):
    """the real function behind a monitor wrapper"""
    while hasattr(f, '__wrapped__'):
        f = f.__wrapped__
    return f


def symbols(prefix, n):
    import sympy as sp
    return list(sp.symbols('%s0:%d' % (prefix, n)))


def bernstein_expr(P, t):
    import sympy as sp
    n = len(P) - 1
    return sum(sp.binomial(n, i) * (1 - t) ** (n - i) * t ** i * P[i] for i in range(n + 1))


def is_zero(e):
    import sympy as sp
    return sp.expand(e) == 0
