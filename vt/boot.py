"""Import svgpathtools from the working tree under test.

``boot(config)`` must be called once per process, before anything imports
svgpathtools.  It
  * puts $VT_REPO (default /repo) first on sys.path and asserts that the
    imported package really comes from there ("rebuild from the current
    working tree" for a pure-Python repository),
  * never writes bytecode into the repository,
  * for config == 'noscipy' blocks scipy *before* the import, so that the
    library's own ``except:`` arm sets ``_quad_available = False`` exactly as
    on a machine without scipy,
  * stubs out everything that would open a browser.
"""
import os
import sys
import warnings

VERIF = os.path.dirname(os.path.dirname(os.path.abspath(__file__)))
REPO = os.path.realpath(os.environ.get('VT_REPO', '/repo'))
DEPS = os.path.join(VERIF, '.deps')

_booted = None


def boot(config='scipy'):
    global _booted
    if _booted is not None:
        assert _booted == config, (_booted, config)
        return sys.modules['svgpathtools']
    sys.dont_write_bytecode = True
    os.environ.setdefault('PYTHONDONTWRITEBYTECODE', '1')
    if REPO in sys.path:
        sys.path.remove(REPO)
    sys.path.insert(0, REPO)
    if os.path.isdir(DEPS) and DEPS not in sys.path:
        sys.path.append(DEPS)
    warnings.simplefilter('ignore')
    import numpy as np
    np.seterr(all='ignore')
    if config == 'noscipy':
        for k in [k for k in sys.modules if k == 'scipy' or k.startswith('scipy.')]:
            del sys.modules[k]
        sys.modules['scipy'] = None
        sys.modules['scipy.integrate'] = None
    for k in [k for k in sys.modules if k == 'svgpathtools' or k.startswith('svgpathtools.')]:
        del sys.modules[k]
    import svgpathtools
    here = os.path.realpath(svgpathtools.__file__)
    assert here.startswith(REPO + os.sep), (
        'svgpathtools imported from %s, not from %s' % (here, REPO))
    import svgpathtools.path as P
    if config == 'noscipy':
        assert P._quad_available is False
    else:
        assert P._quad_available is True
    # never open a browser / never write to the temp dir behind our back
    import svgpathtools.misctools as M
    import svgpathtools.paths2svg as S

    def _no_browser(*a, **k):
        raise RuntimeError('vt: library tried to open a browser')
    M.open_in_browser = _no_browser
    S.open_in_browser = _no_browser
    for modname in ('svgpathtools.document', 'svgpathtools.svg_io_sax'):
        mod = sys.modules.get(modname)
        if mod is not None and hasattr(mod, 'open_in_browser'):
            mod.open_in_browser = _no_browser
    _booted = config
    return svgpathtools
