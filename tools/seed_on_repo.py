#!/venv/bin/python
"""Final confirmation of the filed seeded changes against /repo itself.

usage: tools/seed_on_repo.py [Cnn-i ...]      (default: every directory under seeded/)
For each seed: `git -C /repo apply seeded/<id>/patch.diff`, run the quick tier of the check(s) that caught it in the
scratch-worktree evaluation (meta.json 'ran'), `git -C /repo checkout -- .` straight afterwards (also on failure), and
append the outcome to meta.json under 'ran_on_repo'.  /repo must be clean before and is clean after; nothing is ever
committed there.  Evidence files and replays written by these runs describe a deliberately broken tree, so the evidence
directory is restored from git afterwards.
"""
import json
import os
import subprocess
import sys

V = os.path.dirname(os.path.dirname(os.path.abspath(__file__)))


def sh(cmd, **kw):
    r = subprocess.run(cmd, capture_output=True, text=True, **kw)
    return r.returncode, r.stdout + r.stderr


def main():
    ids = sys.argv[1:] or sorted(os.listdir(os.path.join(V, 'seeded')))
    rc, out = sh(['git', '-C', '/repo', 'status', '--porcelain', '--untracked-files=no'])
    if out.strip():
        print('refusing: /repo has local changes:\n' + out)
        return 2
    summary = []
    for sid in ids:
        d = os.path.join(V, 'seeded', sid)
        meta = json.load(open(os.path.join(d, 'meta.json')))
        checks = [r['check'] for r in meta['ran'] if r['verdict'].startswith('CAUGHT')] or [meta['ran'][0]['check']]
        expect_caught = any(r['verdict'].startswith('CAUGHT') for r in meta['ran'])
        patch = os.path.join(d, 'patch_rebased.diff')       # same change re-made for the current head, where needed
        if not os.path.exists(patch):
            patch = os.path.join(d, 'patch.diff')
        rc, out = sh(['git', '-C', '/repo', 'apply', patch])
        if rc != 0:
            print(sid, 'DOES NOT APPLY on the current /repo head:', out[:200])
            summary.append((sid, 'does-not-apply'))
            sh(['git', '-C', '/repo', 'checkout', '--', '.'])
            continue
        results = []
        try:
            for c in checks[:1]:
                rcc, oc = sh([os.path.join(V, 'vtcheck'), c, '--tier', 'quick'], cwd=V,
                             env=dict(os.environ, VT_EVIDENCE_SCRATCH='1'))
                caught = rcc == 1 and 'VIOLATION property=' in oc
                keys = [l.strip()[:150] for l in oc.splitlines() if l.startswith('  key=')][:2]
                results.append({'check': c, 'cmd': 'git -C /repo apply seeded/%s/%s; ./vtcheck %s --tier quick; git -C /repo checkout -- .' % (sid, os.path.basename(patch), c),
                                'exit': rcc, 'verdict': 'CAUGHT' if caught else {0: 'MISSED', 2: 'INCONCLUSIVE'}.get(rcc, 'ERROR'),
                                'first_keys': keys})
        finally:
            sh(['git', '-C', '/repo', 'checkout', '--', '.'])
        meta['ran_on_repo'] = results
        json.dump(meta, open(os.path.join(d, 'meta.json'), 'w'), indent=1)
        ok = all((r['verdict'] == 'CAUGHT') == expect_caught for r in results)
        print(sid, [(r['check'], r['verdict']) for r in results], '' if ok else '   <-- differs from the scratch evaluation')
        summary.append((sid, results[0]['verdict'] if results else '?'))
    rc, out = sh(['git', '-C', '/repo', 'status', '--porcelain', '--untracked-files=no'])
    assert not out.strip(), '/repo not clean: ' + out
    # evidence written while /repo was deliberately broken must not stay
    sh(['git', '-C', V, 'checkout', '--', 'evidence'])
    sh(['bash', '-c', 'rm -f %s/replays/*.json' % V])
    n = sum(1 for _, v in summary if v == 'CAUGHT')
    print('caught on /repo itself: %d of %d' % (n, len(summary)))
    return 0


if __name__ == '__main__':
    sys.exit(main())
