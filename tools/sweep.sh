#!/bin/bash
# tools/sweep.sh [tier] [seed...] : runs every registered check; prints one line per run
tier=${1:-quick}; shift
seeds=${@:-0}
cd "$(dirname "$0")/.."
for s in $seeds; do
  for c in $(/venv/bin/python -c "import json; print(' '.join(x['property_id'] for x in json.load(open('MANIFEST.json'))['checks']))"); do
    out=$(VERIF_SEED=$s ./vtcheck $c --tier $tier 2>&1); rc=$?
    echo "seed=$s rc=$rc $(echo "$out" | grep -E '^RESULT' | cut -c1-150)"
    [ $rc -ne 0 ] && echo "$out" | grep -E 'key=|INCONC' | cut -c1-220 | head -5
  done
done
