#!/venv/bin/python
"""Evaluate independently written breaking changes (sub-agent output) and file them under /verif/seeded.

usage: tools/seed_eval.py <prop> <i> [--checks C01,C16] [--tier quick] [--keep]
  source: /tmp/seed-<prop>/out/change_<i>.diff, demo_<i>.py, notes_<i>.md (the sub-agent's output), or, once that
          scratch worktree is removed, the filed copy /verif/seeded/<prop>-<i>/
  1. confirm in a scratch worktree of /repo (outside /repo and /verif): the diff applies, the existing tests
     pass with it, the demonstration fails (exit 1) with it and passes (exit 0) without it;
  2. run the given checks (default: the property's own) against the changed tree (VT_REPO=<scratch>);
  3. with --keep write /verif/seeded/<prop>-<i>/{patch.diff, demo.py, notes.md, meta.json}.
The scratch worktree is removed afterwards.
"""
import json
import os
import shutil
import subprocess
import sys
import tempfile

V = os.path.dirname(os.path.dirname(os.path.abspath(__file__)))
PY = '/venv/bin/python'


def sh(cmd, cwd=None, env=None, timeout=3600):
    r = subprocess.run(cmd, cwd=cwd, env=env, capture_output=True, text=True, timeout=timeout)
    return r.returncode, r.stdout + r.stderr


def main():
    args = [a for a in sys.argv[1:] if not a.startswith('--')]
    prop, i = args[0], args[1]
    checks = [prop]
    tier = 'quick'
    if '--checks' in sys.argv:
        checks = sys.argv[sys.argv.index('--checks') + 1].split(',')
        args.remove(','.join(checks)) if ','.join(checks) in args else None
    if '--tier' in sys.argv:
        tier = sys.argv[sys.argv.index('--tier') + 1]
    # ids 1-2: first seeding round (/tmp/seed-<prop>), ids 3-5: second round (/tmp/seed2-<prop>, its files 1-3)
    # ids 6+: third round (/tmp/seed3-<prop>, its file 1)
    j = i if int(i) <= 2 else str(int(i) - 2) if int(i) <= 5 else str(int(i) - 5)
    src = ('/tmp/seed-%s/out' if int(i) <= 2 else '/tmp/seed2-%s/out' if int(i) <= 5 else '/tmp/seed3-%s/out') % prop
    diff = os.path.join(src, 'change_%s.diff' % j)
    demo = os.path.join(src, 'demo_%s.py' % j)
    notes = os.path.join(src, 'notes_%s.md' % j)
    kept = os.path.join(V, 'seeded', '%s-%s' % (prop, i))
    if not os.path.exists(diff) and os.path.exists(os.path.join(kept, 'patch.diff')):
        # the sub-agent's scratch worktree is gone: re-evaluate the filed copy
        diff, demo, notes = (os.path.join(kept, n) for n in ('patch.diff', 'demo.py', 'notes.md'))
    scratch = tempfile.mkdtemp(prefix='vt-seedeval-', dir='/tmp')
    os.rmdir(scratch)
    rc, out = sh(['git', '-C', '/repo', 'worktree', 'add', '-q', '--detach', scratch, 'HEAD'])
    assert rc == 0, out
    meta = {'property': prop, 'source': 'sub-agent given only the property text and a scratch worktree', 'ran': []}
    try:
        env = dict(os.environ, PYTHONPATH=scratch, PYTHONDONTWRITEBYTECODE='1')
        rc0, o0 = sh([PY, demo], cwd=scratch, env=env, timeout=1200)
        meta['demo_without_change_exit'] = rc0
        rc, out = sh(['git', 'apply', diff], cwd=scratch)
        meta['applies'] = rc == 0
        if rc != 0:
            print('DOES NOT APPLY', out[:300])
            return 2
        rct, ot = sh([PY, '-m', 'pytest', '-q', '-p', 'no:cacheprovider', '--timeout=900'], cwd=scratch, env=env)
        last = [l for l in ot.strip().splitlines() if 'passed' in l or 'failed' in l][-1:]
        meta['tests_with_change'] = last[0] if last else ot[-200:]
        if 'failed' in meta['tests_with_change'] and 'test_arc_line' in ot and ot.count('FAILED') == 1:
            rct, ot = sh([PY, '-m', 'pytest', '-q', '-p', 'no:cacheprovider', '--timeout=900'], cwd=scratch, env=env)
            last = [l for l in ot.strip().splitlines() if 'passed' in l or 'failed' in l][-1:]
            meta['tests_with_change'] = (last[0] if last else '?') + ' (rerun: test_arc_line is randomly seeded)'
        rc1, o1 = sh([PY, demo], cwd=scratch, env=env, timeout=1200)
        meta['demo_with_change_exit'] = rc1
        meta['demo_output_with_change'] = o1.strip()[-400:]
        confirmed = rc0 == 0 and rc1 == 1 and 'failed' not in meta['tests_with_change']
        meta['confirmed'] = confirmed
        print('seed %s-%s: demo without=%s with=%s tests=%s confirmed=%s' % (prop, i, rc0, rc1, meta['tests_with_change'], confirmed))
        for c in checks:
            rcc, oc = sh([os.path.join(V, 'vtcheck'), c, '--tier', tier], env=dict(os.environ, VT_REPO=scratch))
            keys = [l.strip() for l in oc.splitlines() if l.startswith('  key=')]
            res = [l for l in oc.splitlines() if l.startswith('RESULT')]
            verdict = {0: 'MISSED', 2: 'INCONCLUSIVE'}.get(rcc, 'ERROR') if not (rcc == 1 and 'VIOLATION property=' in oc) else 'CAUGHT'
            meta['ran'].append({'check': c, 'tier': tier, 'cmd': 'VT_REPO=<scratch worktree with patch.diff applied> ./vtcheck %s --tier %s' % (c, tier),
                                'exit': rcc, 'verdict': verdict, 'first_keys': keys[:4], 'result': res[-1] if res else oc[-200:]})
            print('   %s %s: %s  %s' % (c, tier, verdict, (keys[0][:160] if keys else (res[-1][:160] if res else ''))))
        if '--keep' in sys.argv:
            d = os.path.join(V, 'seeded', '%s-%s' % (prop, i))
            os.makedirs(d, exist_ok=True)
            for srcf, name in ((diff, 'patch.diff'), (demo, 'demo.py'), (notes, 'notes.md')):
                if os.path.exists(srcf) and os.path.abspath(srcf) != os.path.join(d, name):
                    shutil.copy(srcf, os.path.join(d, name))
            if os.path.exists(os.path.join(d, 'notes.md')):
                meta['needs_to_manifest'] = 'see notes.md'
            meta['breaks'] = prop
            with open(os.path.join(d, 'meta.json'), 'w') as f:
                json.dump(meta, f, indent=1)
    finally:
        sh(['git', '-C', '/repo', 'worktree', 'remove', '--force', scratch])
        shutil.rmtree(scratch, ignore_errors=True)
    return 0


if __name__ == '__main__':
    sys.exit(main())
