#!/venv/bin/python
"""Regenerates MANIFEST.json from the check modules that exist (vt/checks/cNN.py with REGISTER=True)."""
import importlib, json, os, sys
V = os.path.dirname(os.path.dirname(os.path.abspath(__file__)))
sys.path.insert(0, V)
props = [json.loads(l) for l in open(os.path.join(V, 'properties.jsonl'))]
checks, na = [], []
for p in props:
    pid = p['id']
    try:
        m = importlib.import_module('vt.checks.' + pid.lower())
    except ModuleNotFoundError:
        m = None
    if m is None or not getattr(m, 'REGISTER', False):
        na.append({'property_id': pid, 'reason': getattr(m, 'NA_REASON', 'check under construction (build phase): not yet claimed')})
        continue
    checks.append({
        'property_id': pid,
        'quick_cmd': './vtcheck %s --tier quick' % pid,
        'thorough_cmd': './vtcheck %s --tier thorough' % pid,
        'evidence_file': 'evidence/%s.json' % pid,
        'replay_cmd_template': './vtcheck %s --replay {path}' % pid,
        'engine': 'vt',
        'level_claimed': {'category': 'exploration', 'text': m.LEVEL_TEXT, 'design_ref': 'DESIGN.md section 4, ' + pid},
        'level_note': m.LEVEL_NOTE,
        'technique': m.TECHNIQUE,
    })
man = {
    'version': 1,
    'setup_cmd': './vtcheck --setup',
    'hooks': {'guard': 'SVGPATHTOOLS_VERIF',
              'enable': 'no source hooks exist: monitors are installed from the harness by wrapping the real functions after import (vt/monitor.py), caches are plain attributes, the scipy-less configuration is selected by an import blocker; the guard name is reserved and unused',
              'baseline_off_cmd': 'cd /repo && /venv/bin/python -m pytest -ra -q -p no:cacheprovider --timeout=900 --continue-on-collection-errors',
              'source_commits': [], 'add_only': True},
    'engines': [{'name': 'vt', 'path': 'vt/', 'serves_properties': [c['property_id'] for c in checks],
                 'kind_free_text': 'runtime monitors (post-condition oracles wrapped around the real svgpathtools functions, re-bound in every module) + independent reference models (vt/ref) + seeded/enumerated hostile workload drivers, sharded over processes; three-valued verdicts'}],
    'checks': checks,
    'not_applicable': na,
    'notes': 'exit 0 held / exit 1 VIOLATION / exit 2 INCONCLUSIVE (watchdog, dead shard, deciding monitor never evaluated). Known findings: known_findings.json (never written at run time).',
}
json.dump(man, open(os.path.join(V, 'MANIFEST.json'), 'w'), indent=1)
try:
    sys.path.append(os.path.join(V, '.deps'))
    import jsonschema
    jsonschema.validate(man, json.load(open(os.path.join(V, 'schemas', 'MANIFEST.schema.json'))))
    print('MANIFEST valid: %d checks, %d not_applicable' % (len(checks), len(na)))
except ImportError:
    print('written (jsonschema unavailable)')
