#!/venv/bin/python
"""Sensitivity self-test (not a registered check).

selftest/mutants.json: {name: {"props": [...], "edits": [{"file","old","new"}], "note"}}
Each mutant is applied to a scratch copy of /repo (outside /repo and /verif), the
repository's own tests are run there when --tests is given (a mutant they kill is
uninteresting), the listed checks run with VT_REPO=<scratch>; expected: exit 1.
usage: tools/mutants.py [name-substring ...] [--tests] [--tier quick] [--jobs N]
"""
import json, os, shutil, subprocess, sys, tempfile
V = os.path.dirname(os.path.dirname(os.path.abspath(__file__)))
args = [a for a in sys.argv[1:] if not a.startswith('--')]
tests = '--tests' in sys.argv
tier = 'quick'
if '--tier' in sys.argv:
    tier = sys.argv[sys.argv.index('--tier') + 1]
    args.remove(tier)
muts = json.load(open(os.path.join(V, 'selftest', 'mutants.json')))
sel = {k: v for k, v in muts.items() if not args or any(a in k for a in args)}
summary = []
for name, m in sel.items():
    scratch = tempfile.mkdtemp(prefix='vt-mut-', dir='/tmp')
    try:
        for item in ('svgpathtools', 'test'):
            shutil.copytree(os.path.join('/repo', item), os.path.join(scratch, item),
                            ignore=shutil.ignore_patterns('__pycache__'))
        ok = True
        for e in m['edits']:
            p = os.path.join(scratch, e['file'])
            s = open(p).read()
            if s.count(e['old']) != 1:
                print('%s: edit does not apply uniquely (%d matches) in %s' % (name, s.count(e['old']), e['file']))
                ok = False
                break
            open(p, 'w').write(s.replace(e['old'], e['new']))
        if not ok:
            summary.append((name, 'NOAPPLY', ''))
            continue
        tres = ''
        if tests:
            r = subprocess.run(['/venv/bin/python', '-m', 'pytest', '-q', '-p', 'no:cacheprovider', '--timeout=900'],
                               cwd=scratch, env=dict(os.environ, PYTHONPATH=scratch), capture_output=True, text=True)
            tres = r.stdout.strip().splitlines()[-1] if r.stdout.strip() else '?'
        for prop in m['props']:
            r = subprocess.run([os.path.join(V, 'vtcheck'), prop, '--tier', tier],
                               env=dict(os.environ, VT_REPO=scratch), capture_output=True, text=True)
            keys = [l.strip() for l in r.stdout.splitlines() if l.startswith('  key=')]
            verdict = {0: 'MISSED', 2: 'INCONCLUSIVE'}.get(r.returncode, 'ERROR rc=%d' % r.returncode) if not (r.returncode == 1 and 'VIOLATION property=' in r.stdout) else 'CAUGHT'
            summary.append((name, '%s by %s' % (verdict, prop), (keys[0][:150] if keys else (r.stdout.strip().splitlines() or [r.stderr.strip()[-150:]])[-1][:150]) + ('  | tests: ' + tres if tres else '')))
    finally:
        shutil.rmtree(scratch, ignore_errors=True)
for s in summary:
    print('%-40s %-22s %s' % s)
sys.exit(0 if all('CAUGHT' in s[1] for s in summary) else 1)
